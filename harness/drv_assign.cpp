// Correspondence driver for passive array statements and reductions (model M5, property C04).
// usage: drv_assign i|d < ops        (element type int / double holding integers)
//
//   reset                                   drop everything (row-major default restored)
//   order r|c                               set_array_row_major_order(true|false)
//   alloc <aid> <vid> <rank> d… def|row|col new Array (resize / resize_row_major / resize_column_major); view <vid> is the whole array
//                                             -> "A <n_allocated> <rank> d… offset…"
//   falloc <aid> <vid> 4|23|33|234          FixedArray<T,false,4> / <2,3> / <3,3> / <2,3,4>; view <vid> = fa(__[,__]) (an Array onto its data)
//   fill <aid> x… | fill <aid> seed <s>     raw fill of the whole allocation, padding included
//   view <vid> <src vid> spec… [T | P<ijk>] slice: spec per dimension of src  : | n<k> | s<b>,<e>,<st>  ; then .T() / .permute
//                                             -> "V <aid> <base offset> <rank> d… offset…"
//   idx <id> <n> i…      bools <id> <rank> d… b…      iview <wid> <vid> sel…   (sel: i<idx id> | a | n<k>)
//   asg|cadd|csub|cmul|cdiv v<l> <expr>     sca v<l> <int>     whr v<l> <mask> ; <wrhs>     weo v<l> <mask> ; <wrhs> ; <wrhs>
//   fasg|fcadd|fcmul f<aid> <expr>          statements on the FixedArray object itself
//   wcadd|wcsub|wcmul|wcdiv v<l> <mask> ; <wrhs>          A.where(mask) OP= rhs   (where.h ADEPT_WHERE_OPERATOR; see drv_assign_impl.h)
//   fwhr|fwcadd|fwcmul f<aid> <mask> ; <wrhs>             F.where(mask) = / += / *= rhs on the FixedArray object
//   fweo f<aid> <mask> ; <wrhs> ; <wrhs>                  F.where(mask) = either_or(c, d)
//   ilst v<l> | filst f<aid> | iilst w<id>  <nrows> <n0> x.. <n1> x.. ..    target = {x..} (rank 1) / {{..},{..}} (rank 2)
//   iasg|icadd|icsub|icmul w<id> <expr>     isca w<id> <int>
//   red|redd|redb|reddb|find|minloc|maxloc|dot …      (see lean/Driver/Assign.lean)
//   dump <aid>                              -> "D x…" raw image
// Statement lines answer "ok [a=<is_aliased>] o=ok|bad[ exp a<id>: image…]" (oracle: whole RHS (and mask) read through
// operator() into temporaries, then stored through operator(), compared with the WHOLE image of every allocation),
// or "hazard" (zero/inexact divisor, overflow of the exact range, index out of range: statement not executed).
#include "drv_assign.h"
#include <functional>
using namespace c04;

namespace c04 {
extern template bool exec_ranked<1, int>(World<int>&, std::vector<std::string>&, std::string&);
extern template bool exec_ranked<2, int>(World<int>&, std::vector<std::string>&, std::string&);
extern template bool exec_ranked<3, int>(World<int>&, std::vector<std::string>&, std::string&);
extern template bool exec_ranked<1, double>(World<double>&, std::vector<std::string>&, std::string&);
extern template bool exec_ranked<2, double>(World<double>&, std::vector<std::string>&, std::string&);
extern template bool exec_ranked<3, double>(World<double>&, std::vector<std::string>&, std::string&);
}

template <class T> static std::string view_line(World<T>& W, VW<T>& v) {
  std::ostringstream os;
  Alloc<T>& a = W.allocs[v.alloc];
  const T* p = v.rank == 1 ? v.a1.const_data() : v.rank == 2 ? v.a2.const_data() : v.a3.const_data();
  os << "V " << v.alloc << " " << (long)(p - a.data) << " " << v.rank;
  for (int k = 0; k < v.rank; ++k) os << " " << (v.rank == 1 ? v.a1.dimension(k) : v.rank == 2 ? v.a2.dimension(k) : v.a3.dimension(k));
  for (int k = 0; k < v.rank; ++k) os << " " << (v.rank == 1 ? v.a1.offset(k) : v.rank == 2 ? v.a2.offset(k) : v.a3.offset(k));
  return os.str();
}

struct Spec { int kind; int a, b, c; };   // 0 all, 1 scalar a, 2 stride(a,b,c)
static bool parse_spec(const std::string& s, Spec& sp) {
  if (s == ":") { sp.kind = 0; return true; }
  if (s[0] == 'n') { sp.kind = 1; sp.a = atoi(s.c_str() + 1); return true; }
  if (s[0] == 's') { sp.kind = 2; return sscanf(s.c_str() + 1, "%d,%d,%d", &sp.a, &sp.b, &sp.c) == 3; }
  return false;
}
// stride(b,e,s) with the bounds as given; ":" is __
#define RG(k) stride(sp[k].a, sp[k].b, sp[k].c)
template <class T> static bool slice(VW<T>& src, Spec* sp, VW<T>& dst) {
  for (int k = 0; k < src.rank; ++k) if (sp[k].kind == 0) { sp[k].kind = 2; sp[k].a = 0; sp[k].c = 1;
      sp[k].b = (src.rank == 1 ? src.a1.dimension(k) : src.rank == 2 ? src.a2.dimension(k) : src.a3.dimension(k)) - 1; }
  std::string pat; for (int k = 0; k < src.rank; ++k) pat += sp[k].kind == 1 ? 'n' : 'r';
  dst.alloc = src.alloc;
  if (src.rank == 1) {
    if (pat == "r") { dst.rank = 1; dst.a1 >>= src.a1(RG(0)); return true; }
  } else if (src.rank == 2) {
    if (pat == "rr") { dst.rank = 2; dst.a2 >>= src.a2(RG(0), RG(1)); return true; }
    if (pat == "nr") { dst.rank = 1; dst.a1 >>= src.a2(sp[0].a, RG(1)); return true; }
    if (pat == "rn") { dst.rank = 1; dst.a1 >>= src.a2(RG(0), sp[1].a); return true; }
  } else {
    if (pat == "rrr") { dst.rank = 3; dst.a3 >>= src.a3(RG(0), RG(1), RG(2)); return true; }
    if (pat == "nrr") { dst.rank = 2; dst.a2 >>= src.a3(sp[0].a, RG(1), RG(2)); return true; }
    if (pat == "rnr") { dst.rank = 2; dst.a2 >>= src.a3(RG(0), sp[1].a, RG(2)); return true; }
    if (pat == "rrn") { dst.rank = 2; dst.a2 >>= src.a3(RG(0), RG(1), sp[2].a); return true; }
    if (pat == "nnr") { dst.rank = 1; dst.a1 >>= src.a3(sp[0].a, sp[1].a, RG(2)); return true; }
    if (pat == "nrn") { dst.rank = 1; dst.a1 >>= src.a3(sp[0].a, RG(1), sp[2].a); return true; }
    if (pat == "rnn") { dst.rank = 1; dst.a1 >>= src.a3(RG(0), sp[1].a, sp[2].a); return true; }
  }
  return false;
}
#undef RG

template <class T> static int run() {
  World<T> W;
  std::string line;
  while (std::getline(std::cin, line)) {
    std::vector<std::string> w = verif::words(line);
    if (w.empty()) continue;
    try {
      const std::string& op = w[0];
      if (op == "reset") { W.clear(); set_array_row_major_order(true); std::cout << "reset\n"; }
      else if (op == "order" && w.size() == 2) { set_array_row_major_order(w[1] == "r"); std::cout << "ok\n"; }
      else if (op == "alloc" && w.size() >= 5) {
        int aid = atoi(w[1].c_str()), vid = atoi(w[2].c_str()), r = atoi(w[3].c_str());
        if (r < 1 || r > 3 || (int)w.size() != 5 + r) { std::cout << "bad-op\n"; continue; }
        int d[3] = {1, 1, 1}; for (int k = 0; k < r; ++k) d[k] = atoi(w[4 + k].c_str());
        const std::string& mode = w[4 + r];
        W.views.erase(vid); VW<T>& v = W.views[vid]; v.rank = r; v.alloc = aid;
        Alloc<T> a;
#define MK(ARR, DIMS) if (mode == "row") ARR.resize_row_major(DIMS); else if (mode == "col") ARR.resize_column_major(DIMS); else ARR.resize(DIMS); \
        a.data = ARR.data(); a.n = ARR.storage()->n_allocated();
        if (r == 1) { MK(v.a1, dimensions(d[0])) } else if (r == 2) { MK(v.a2, dimensions(d[0], d[1])) } else { MK(v.a3, dimensions(d[0], d[1], d[2])) }
#undef MK
        W.allocs[aid] = a;
        std::cout << "A " << a.n << " " << view_line(W, v).substr(2) << "\n";
      } else if (op == "falloc" && w.size() == 4) {
        int aid = atoi(w[1].c_str()), vid = atoi(w[2].c_str()), kind = atoi(w[3].c_str());
        W.views.erase(vid); VW<T>& v = W.views[vid]; v.alloc = aid;
        Alloc<T> a; a.fkind = kind;
        if (kind == 4) { auto p = std::make_shared<FixedArray<T, false, 4> >(); a.fixed = p; a.data = p->data(); a.n = 4; v.rank = 1; v.a1 >>= (*p)(__); }
        else if (kind == 23) { auto p = std::make_shared<FixedArray<T, false, 2, 3> >(); a.fixed = p; a.data = p->data(); a.n = 6; v.rank = 2; v.a2 >>= (*p)(__, __); }
        else if (kind == 33) { auto p = std::make_shared<FixedArray<T, false, 3, 3> >(); a.fixed = p; a.data = p->data(); a.n = 9; v.rank = 2; v.a2 >>= (*p)(__, __); }
        else if (kind == 234) { auto p = std::make_shared<FixedArray<T, false, 2, 3, 4> >(); a.fixed = p; a.data = p->data(); a.n = 24; v.rank = 3; v.a3 >>= (*p)(__, __, __); }
        else { W.views.erase(vid); std::cout << "bad-op\n"; continue; }
        W.allocs[aid] = a;
        std::cout << "A " << a.n << " " << view_line(W, v).substr(2) << "\n";
      } else if (op == "fill" && w.size() >= 3) {
        // fill <aid> x…  (explicit, n_allocated values)   or   fill <aid> seed <s>  (values in -5..5 from a fixed generator)
        int aid = atoi(w[1].c_str());
        if (!W.allocs.count(aid)) { std::cout << "bad-op\n"; continue; }
        Alloc<T>& a = W.allocs[aid];
        if (w[2] == "seed" && w.size() == 4) {
          unsigned long seed = strtoul(w[3].c_str(), 0, 10);
          for (Index i = 0; i < a.n; ++i) {
            unsigned long x = (seed * 1103515245UL + 12345UL + (unsigned long)i * 2654435761UL) & 0xffffffffUL;
            a.data[i] = (T)((long)((x >> 16) % 11UL) - 5);
          }
        } else if ((Index)w.size() == 2 + a.n) {
          for (Index i = 0; i < a.n; ++i) a.data[i] = (T)atol(w[2 + i].c_str());
        } else { std::cout << "bad-op\n"; continue; }
        std::cout << "ok\n";
      } else if (op == "view" && w.size() >= 4) {
        int vid = atoi(w[1].c_str()), sid = atoi(w[2].c_str());
        if (!W.views.count(sid) || vid == sid) { std::cout << "bad-op\n"; continue; }
        VW<T> src; link_vw(src, W.views[sid]);
        if ((int)w.size() < 3 + src.rank) { std::cout << "bad-op\n"; continue; }
        Spec sp[3]; bool okp = true;
        for (int k = 0; k < src.rank; ++k) okp = okp && parse_spec(w[3 + k], sp[k]);
        VW<T> dst;
        if (!okp || !slice(src, sp, dst)) { std::cout << "bad-op\n"; continue; }
        if ((int)w.size() == 4 + src.rank) {
          const std::string& post = w[3 + src.rank];
          if (post == "T" && dst.rank == 2) { Array<2, T> t; t >>= dst.a2.T(); dst.a2 >>= t; }
          else if (post[0] == 'P' && dst.rank == 3 && post.size() == 4) { Array<3, T> t; t >>= dst.a3.permute(post[1] - '0', post[2] - '0', post[3] - '0'); dst.a3 >>= t; }
          else { std::cout << "bad-op\n"; continue; }
        } else if ((int)w.size() != 3 + src.rank) { std::cout << "bad-op\n"; continue; }
        W.views.erase(vid); link_vw(W.views[vid], dst);
        std::cout << view_line(W, W.views[vid]) << "\n";
      } else if (op == "idx" && w.size() >= 3) {
        int id = atoi(w[1].c_str()), n = atoi(w[2].c_str());
        if ((int)w.size() != 3 + n || n < 1) { std::cout << "bad-op\n"; continue; }
        intVector x(n); for (int i = 0; i < n; ++i) x(i) = atoi(w[3 + i].c_str());
        W.idx[id] >>= x; std::cout << "ok\n";
      } else if (op == "bools" && w.size() >= 3) {
        int id = atoi(w[1].c_str()), r = atoi(w[2].c_str());
        if (r < 1 || r > 3 || (int)w.size() < 3 + r) { std::cout << "bad-op\n"; continue; }
        int d[3] = {1, 1, 1}; long n = 1; for (int k = 0; k < r; ++k) { d[k] = atoi(w[3 + k].c_str()); n *= d[k]; }
        if ((long)w.size() != 3 + r + n) { std::cout << "bad-op\n"; continue; }
        W.bools.erase(id); BW& b = W.bools[id]; b.rank = r;
        long p = 3 + r;
        if (r == 1) { b.a1.resize(d[0]); for (int i = 0; i < d[0]; ++i) b.a1(i) = w[p++] != "0"; }
        else if (r == 2) { b.a2.resize(d[0], d[1]); for (int i = 0; i < d[0]; ++i) for (int j = 0; j < d[1]; ++j) b.a2(i, j) = w[p++] != "0"; }
        else { b.a3.resize(d[0], d[1], d[2]); for (int i = 0; i < d[0]; ++i) for (int j = 0; j < d[1]; ++j) for (int k = 0; k < d[2]; ++k) b.a3(i, j, k) = w[p++] != "0"; }
        std::cout << "ok\n";
      } else if (op == "iview" && w.size() >= 4) {
        int wid = atoi(w[1].c_str()), vid = atoi(w[2].c_str());
        if (!W.views.count(vid) || (int)w.size() != 3 + W.views[vid].rank) { std::cout << "bad-op\n"; continue; }
        IV iv; iv.view = vid; iv.krank = 0; bool okp = true;
        for (int k = 0; k < W.views[vid].rank; ++k) {
          const std::string& s = w[3 + k]; Sel sl; sl.id = 0; sl.n = 0;
          if (s[0] == 'i') { sl.kind = 0; sl.id = atoi(s.c_str() + 1); okp = okp && W.idx.count(sl.id); ++iv.krank; }
          else if (s == "a") { sl.kind = 1; ++iv.krank; }
          else if (s[0] == 'n') { sl.kind = 2; sl.n = atoi(s.c_str() + 1); }
          else okp = false;
          iv.sel.push_back(sl);
        }
        if (!okp || iv.krank < 1) { std::cout << "bad-op\n"; continue; }
        W.iviews[wid] = iv; std::cout << "ok\n";
      } else if (op == "dump" && w.size() == 2) {
        int aid = atoi(w[1].c_str());
        if (!W.allocs.count(aid)) { std::cout << "bad-op\n"; continue; }
        std::cout << "D";
        for (Index i = 0; i < W.allocs[aid].n; ++i) std::cout << " " << num((double)W.allocs[aid].data[i]);
        std::cout << "\n";
      } else {
        // rank of the target / argument
        int r = 0;
        if (w.size() >= 2) {
          if ((op == "asg" || op == "asge" || op == "asgi" || op == "cadd" || op == "csub" || op == "cmul" || op == "cdiv" || op == "sca" || op == "whr" || op == "weo" || op == "wcadd" || op == "wcsub" || op == "wcmul" || op == "wcdiv" || op == "ilst") && W.views.count(idof(w[1]))) r = W.views[idof(w[1])].rank;
          else if ((op == "iasg" || op == "icadd" || op == "icsub" || op == "icmul" || op == "isca" || op == "iilst") && W.iviews.count(idof(w[1]))) r = W.iviews[idof(w[1])].krank;
          else if ((op == "fasg" || op == "fcadd" || op == "fcmul" || op == "fwhr" || op == "fwcadd" || op == "fwcmul" || op == "fweo" || op == "filst") && W.allocs.count(idof(w[1]))) r = W.allocs[idof(w[1])].fkind == 4 ? 1 : W.allocs[idof(w[1])].fkind == 234 ? 3 : 2;
          else if (op == "red" || op == "redd" || op == "redb" || op == "reddb" || op == "find" || op == "minloc" || op == "maxloc" || op == "dot") {
            Tok t; t.w = w; t.p = (op == "red" || op == "redb") ? 2 : (op == "redd" || op == "reddb") ? 3 : 1;
            Shape sh;
            if (t.p < w.size() && parse_shape(t, sh, op == "redb" || op == "reddb" || op == "find")) {
              if (sh.first_view >= 0 && W.views.count(sh.first_view)) r = W.views[sh.first_view].rank + sh.rank_adj;
              else if (sh.L.size() == 1 && sh.L[0] < 0 && W.bools.count(-1 - sh.L[0])) r = W.bools[-1 - sh.L[0]].rank;
              else if (!sh.Wl.empty() && W.iviews.count(sh.Wl[0])) r = W.iviews[sh.Wl[0]].krank;
            }
          }
        }
        std::string out; bool ok = false;
        if (r == 1) ok = exec_ranked<1, T>(W, w, out); else if (r == 2) ok = exec_ranked<2, T>(W, w, out); else if (r == 3) ok = exec_ranked<3, T>(W, w, out);
        std::cout << (ok ? out : std::string("bad-op")) << "\n";
      }
    } catch (const adept::exception& e) {
      std::cout << "EXC " << e.what() << "\n";
    } catch (const std::exception& e) {
      std::cout << "EXC std " << e.what() << "\n";
    }
  }
  W.clear();
  return 0;
}

int main(int argc, char** argv) {
  if (argc > 1 && std::string(argv[1]) == "d") return run<double>();
  return run<int>();
}
