// drv_matmul: element type float (Pf / Qf lines), band matrices (see drv_matmul.h)
#define MM_ELT float
#define MM_ELT_IS_FLOAT true
#include "drv_matmul.h"
namespace mm {
bool build_group_flt_s2(const Spec& s, XVisitor& v) {
  S_GROUP_HEAD
  S_PA("b11", BandEngine<ROW_MAJOR MM_COMMA 1 MM_COMMA 1>, 0, 0)
  S_P("b12", BandEngine<ROW_MAJOR MM_COMMA 1 MM_COMMA 2>, 1) S_P("b20", BandEngine<ROW_MAJOR MM_COMMA 2 MM_COMMA 0>, 0)
  S_P("cb12", BandEngine<COL_MAJOR MM_COMMA 1 MM_COMMA 2>, 0) S_P("cb02", BandEngine<COL_MAJOR MM_COMMA 0 MM_COMMA 2>, 0)
  return false;
}
}
