// integer-vector indexing of rank-4 views, fixed menu IX_MENU4_LIST (see drv_views_idx.h)
#include "drv_views_idx.h"
std::string ix_op(Array<4,int>& a, const std::vector<std::string>& w) { return ix_go<4>(a, ix_parse<4>(w)); }
