// drv_matmul: element type float (Pf / Qf lines), fixed-size operands (see drv_matmul.h)
#include "drv_matmul.h"
namespace mm {
#define FMF_CASE(R, C) if (r == R && c == C) { if (act) build_FM1<float, true, R, C>(s, v); else build_FM1<float, false, R, C>(s, v); return true; }
#define FVF_CASE(N) if (n == N) { if (act) build_FV1<float, true, N>(s, v); else build_FV1<float, false, N>(s, v); return true; }
bool build_group_flt_fixed(const Spec& s, XVisitor& v) {
  const Words& h = s.head;
  if ((h[0] != "FM" && h[0] != "FV") || !s.flt) return false;
  if (h.size() < 3 || (h[1] != "a" && h[1] != "p")) throw BadOp();
  bool act = h[1] == "a";
  if (h[0] == "FM") {
    long r, c; if (h.size() != 4 || !to_long(h[2], r) || !to_long(h[3], c)) throw BadOp();
    FMF_CASE(2, 3) FMF_CASE(3, 3) FMF_CASE(5, 8)
    throw BadOp();
  } else {
    long n; if (h.size() != 3 || !to_long(h[2], n)) throw BadOp();
    FVF_CASE(3) FVF_CASE(8)
    throw BadOp();
  }
}
}
