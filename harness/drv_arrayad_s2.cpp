// arrayad driver, statement menu part 2: nested expressions, wrappers, broadcasts, compound assignment.
//   n1 T A B C    T = A*B + C              n2 T A B C   T = (A+B)*(A-C)          n3 T A B C   T = A*(B*C)
//   n4 T A B      T = A*noalias(B)         n5 T A B     T = noalias(A*B)         n6 T c A B   T = c*noalias(A-B)
//   n7 T A B      T = eval(A*B)            n8 T A B C   T = noalias(A)*B - C
//   bcp T c       T = c (passive scalar)   bca T s      T = s (adouble)          bce T s1 s2  T = s1*s2 (rank-0 active expression)
//   cmp <op> T A  T op= A                  cmps <op> T c  T op= c                 cmpa <op> T s  T op= s   (op in add sub mul div)
#include "drv_arrayad.h"
#include <type_traits>
using namespace adept;
namespace aad {

template <class F> static int by_rank(Obj* t, F&& f) {
  switch (t->rank) {
    case 1: return f(std::integral_constant<int, 1>());
    case 2: return f(std::integral_constant<int, 2>());
    case 3: return f(std::integral_constant<int, 3>());
  }
  return -1;
}
static int opcode(const std::string& s) { return s == "add" ? 0 : s == "sub" ? 1 : s == "mul" ? 2 : s == "div" ? 3 : -1; }
static Obj* target(const std::string& w) { Obj* T = get(w); return (T && T->kind == K_ARR && T->active) ? T : 0; }

int exec_s2(const Words& w, Ctx& c) {
  const std::string& k = w[0];
  if ((k == "n1" || k == "n2" || k == "n3" || k == "n8") && w.size() == 5) {
    Obj* T = target(w[1]); if (!T) return -1;
    int which = k[1] - '0';
    return by_rank(T, [&](auto Rc) {
      constexpr int R = decltype(Rc)::value;
      Obj* A = geta(w[2], R); Obj* B = geta(w[3], R); Obj* C = geta(w[4], R); if (!A || !B || !C) return -1;
      c.pre({T, A, B, C});
      auto& t = as<R, true>(*T);
      // the first operand is always active here (keeps the number of instantiations down); B, C active or passive
      if (!A->active) return -1;
      auto& a = as<R, true>(*A);
      return with<R>(B, [&](auto& b) { return with<R>(C, [&](auto& cc) {
        switch (which) { case 1: t = a * b + cc; break; case 2: t = (a + b) * (a - cc); break; case 3: t = a * (b * cc); break;
                         default: t = noalias(a) * b - cc; }
        return true; }); }) ? 1 : -1;
    });
  }
  if ((k == "n4" || k == "n5" || k == "n7") && w.size() == 4) {
    Obj* T = target(w[1]); if (!T) return -1;
    int which = k[1] - '0';
    return by_rank(T, [&](auto Rc) {
      constexpr int R = decltype(Rc)::value;
      Obj* A = geta(w[2], R); Obj* B = geta(w[3], R); if (!A || !B) return -1;
      c.pre({T, A, B});
      auto& t = as<R, true>(*T);
      return with<R>(A, [&](auto& a) { return with<R>(B, [&](auto& b) {
        switch (which) { case 4: t = a * noalias(b); break; case 5: t = noalias(a * b); break; default: t = eval(a * b); }
        return true; }); }) ? 1 : -1;
    });
  }
  if (k == "n6" && w.size() == 5) {
    Obj* T = target(w[1]); if (!T) return -1;
    double cv = atof(w[2].c_str());
    return by_rank(T, [&](auto Rc) {
      constexpr int R = decltype(Rc)::value;
      Obj* A = geta(w[3], R); Obj* B = geta(w[4], R); if (!A || !B) return -1;
      c.pre({T, A, B});
      auto& t = as<R, true>(*T);
      return with<R>(A, [&](auto& a) { return with<R>(B, [&](auto& b) { t = cv * noalias(a - b); return true; }); }) ? 1 : -1;
    });
  }
  if (k == "bcp" && w.size() == 3) {
    Obj* T = target(w[1]); if (!T) return -1;
    double cv = atof(w[2].c_str());
    c.pre({T});
    return by_rank(T, [&](auto Rc) { constexpr int R = decltype(Rc)::value; as<R, true>(*T) = cv; return 1; });
  }
  if (k == "bca" && w.size() == 3) {
    Obj* T = target(w[1]); Obj* S = getk(w[2], K_SCAL); if (!T || !S) return -1;
    c.pre({T, S});
    return by_rank(T, [&](auto Rc) { constexpr int R = decltype(Rc)::value; as<R, true>(*T) = asS(*S); return 1; });
  }
  if (k == "bce" && w.size() == 4) {
    Obj* T = target(w[1]); Obj* S1 = getk(w[2], K_SCAL); Obj* S2 = getk(w[3], K_SCAL); if (!T || !S1 || !S2) return -1;
    c.pre({T, S1, S2});
    return by_rank(T, [&](auto Rc) { constexpr int R = decltype(Rc)::value; as<R, true>(*T) = asS(*S1) * asS(*S2); return 1; });
  }
  if (k == "cmp" && w.size() == 4) {
    int op = opcode(w[1]); Obj* T = target(w[2]); if (op < 0 || !T) return -1;
    return by_rank(T, [&](auto Rc) {
      constexpr int R = decltype(Rc)::value;
      Obj* A = geta(w[3], R); if (!A) return -1;
      c.pre({T, A});
      auto& t = as<R, true>(*T);
      return with<R>(A, [&](auto& a) {
        switch (op) { case 0: t += a; break; case 1: t -= a; break; case 2: t *= a; break; default: t /= a; }
        return true; }) ? 1 : -1;
    });
  }
  if (k == "cmps" && w.size() == 4) {
    int op = opcode(w[1]); Obj* T = target(w[2]); if (op < 0 || !T) return -1;
    double cv = atof(w[3].c_str());
    c.pre({T});
    return by_rank(T, [&](auto Rc) {
      constexpr int R = decltype(Rc)::value; auto& t = as<R, true>(*T);
      switch (op) { case 0: t += cv; break; case 1: t -= cv; break; case 2: t *= cv; break; default: t /= cv; }
      return 1; });
  }
  if (k == "cmpa" && w.size() == 4) {
    int op = opcode(w[1]); Obj* T = target(w[2]); Obj* S = getk(w[3], K_SCAL); if (op < 0 || !T || !S) return -1;
    c.pre({T, S});
    const adouble& s = asS(*S);
    return by_rank(T, [&](auto Rc) {
      constexpr int R = decltype(Rc)::value; auto& t = as<R, true>(*T);
      switch (op) { case 0: t += s; break; case 1: t -= s; break; case 2: t *= s; break; default: t /= s; }
      return 1; });
  }
  return 0;
}

} // namespace aad
