// Assignment statements and the packing rule (C05 driver); instantiated per element type in drv_simd_asg_{f,d}.cpp.
#ifndef VERIF_DRV_SIMD_ASG_H
#define VERIF_DRV_SIMD_ASG_H
#include "drv_simd_logic.h"
template <typename T> static std::string asg1(const Words& w) {
  if (w.size() != 8) return "bad-op";
  int shape = atoi(w[2].c_str()); long n = atol(w[3].c_str());
  long t, ts, k1, s1, k2, s2, k3, s3;
  if (!two(w[4], t, ts) || !two(w[5], k1, s1) || !two(w[6], k2, s2) || !two(w[7], k3, s3)) return "bad-op";
  bool ok; const char* pat = shape_expr(shape, ok);
  if (!ok || n < 0 || ts < 1 || s1 < 1 || s2 < 1 || s3 < 1) return "bad-op";
  if (t + ts * n >= L1 || k1 + s1 * n >= L1 || k2 + s2 * n >= L1 || k3 + s3 * n >= L1) return "bad-op";
  Bufs<T>& B = Bufs<T>::get();
  for (int i = 0; i < L1; ++i) B.bt.data()[i] = T(SENT);
  Array<1, T> tg = view1(B.bt, t, ts, n), a = view1(B.ba, k1, s1, n), b = view1(B.bb, k2, s2, n), c = view1(B.bc, k3, s3, n);
  std::ostringstream g;
  g << "G asg " << internal::Packet<T>::size << " " << target_token(tg) << " "
    << subst(pat, leaf_token(a), leaf_token(b), leaf_token(c));
  std::string status;
  hook_reset();
  GUARDED(do_assign(shape, tg, a, b, c), status);
  std::string h = hook_line();
  if (status.empty()) {
    status = "R ok";
    for (long i = 0; i < L1 && status == "R ok"; ++i) {
      long j = (i >= t && (i - t) % ts == 0 && (i - t) / ts < n) ? (i - t) / ts : -1;
      T got = B.bt.data()[i];
      if (j < 0) { if (got != T(SENT)) { std::ostringstream os; os << "R guard i=" << i; status = os.str(); } }
      else {
        T exp = shape_value<T>(shape, va<T>(k1 + s1 * j), vb<T>(k2 + s2 * j), vc<T>(k3 + s3 * j));
        if (bits_of(got) != bits_of(exp)) {
          std::ostringstream os; os << "R bad i=" << j << " got=" << hex(got) << " exp=" << hex(exp); status = os.str();
        }
      }
    }
  }
  return g.str() + " | H " + h + " | " + status;
}

template <typename T> static std::string asg2(const Words& w) {
  if (w.size() != 8) return "bad-op";
  int shape = atoi(w[2].c_str()); long m = atol(w[3].c_str()), n = atol(w[4].c_str());
  long tk, tP, k1, P1, k2, P2;
  if (!two(w[5], tk, tP) || !two(w[6], k1, P1) || !two(w[7], k2, P2)) return "bad-op";
  bool ok; const char* pat = shape_expr(shape, ok);
  if (!ok || m < 1 || n < 1 || m > 80 || n > 200) return "bad-op";
  if ((tP && tk + n > tP) || (P1 && k1 + n > P1) || (P2 && k2 + n > P2)) return "bad-op";
  Mat<T> tg(m, n, tk, tP, -1), a(m, n, k1, P1, 0), b(m, n, k2, P2, 1), c(m, n, k2, P2, 2);
  std::ostringstream g;
  g << "G asg " << internal::Packet<T>::size << " " << target_token(tg.v) << " "
    << subst(pat, leaf_token(a.v), leaf_token(b.v), leaf_token(c.v));
  std::string status;
  hook_reset();
  GUARDED(do_assign(shape, tg.v, a.v, b.v, c.v), status);
  std::string h = hook_line();
  if (status.empty()) {
    status = "R ok";
    long pitch = tg.big.offset(0);
    const T* d = tg.big.const_data();
    for (long i = 0; i < m && status == "R ok"; ++i)
      for (long jj = 0; jj < pitch && status == "R ok"; ++jj) {
        long j = jj - tg.k;
        T got = d[i * pitch + jj];
        if (j < 0 || j >= n) { if (got != T(SENT)) { std::ostringstream os; os << "R guard i=" << i << "," << jj; status = os.str(); } }
        else {
          T exp = shape_value<T>(shape, Mat<T>::val(0, i, j), Mat<T>::val(1, i, j), Mat<T>::val(2, i, j));
          if (bits_of(got) != bits_of(exp)) {
            std::ostringstream os; os << "R bad i=" << i << "," << j << " got=" << hex(got) << " exp=" << hex(exp); status = os.str();
          }
        }
      }
  }
  return g.str() + " | H " + h + " | " + status;
}

// ---- rank 3
template <typename T> static void mk3(Array<3, T>& big, Array<3, T>& v, int kind, long d0, long d1, long n, int which) {
  if (kind == 0) { big.resize(d0, d1, n); v >>= big; }
  else if (kind == 1) { big.resize_contiguous(d0, d1, n); v >>= big; }
  else { big.resize_contiguous(d1, d0, n); v >>= big.permute(1, 0, 2); }
  for (long i = 0; i < d0; ++i) for (long j = 0; j < d1; ++j) for (long k = 0; k < n; ++k)
    v(i, j, k) = which < 0 ? T(SENT) : (which == 0 ? va<T>(i * 57 + j * 31 + k) : vb<T>(i * 57 + j * 31 + k));
}
template <typename T> static std::string asg3(const Words& w) {
  if (w.size() != 8) return "bad-op";
  int shape = atoi(w[2].c_str());
  long d0 = atol(w[3].c_str()), d1 = atol(w[4].c_str()), n = atol(w[5].c_str());
  int kt = atoi(w[6].c_str()), ka = atoi(w[7].c_str());
  if ((shape != 0 && shape != 2) || d0 < 1 || d1 < 1 || n < 1 || d0 > 4 || d1 > 4 || n > 200 || kt < 0 || kt > 2 || ka < 0 || ka > 2)
    return "bad-op";
  Array<3, T> bt, tg, bA, a, bB, b;
  mk3(bt, tg, kt, d0, d1, n, -1); mk3(bA, a, ka, d0, d1, n, 0); mk3(bB, b, 0, d0, d1, n, 1);
  bool ok; const char* pat = shape_expr(shape, ok);
  std::ostringstream g;
  g << "G asg " << internal::Packet<T>::size << " " << target_token(tg) << " " << subst(pat, leaf_token(a), leaf_token(b), "");
  std::string status;
  hook_reset();
  GUARDED(do_assign(shape, tg, a, b, b), status);
  std::string h = hook_line();
  if (status.empty()) {
    status = "R ok";
    for (long i = 0; i < d0 && status == "R ok"; ++i) for (long j = 0; j < d1 && status == "R ok"; ++j) for (long k = 0; k < n; ++k) {
      T exp = shape_value<T>(shape, va<T>(i * 57 + j * 31 + k), vb<T>(i * 57 + j * 31 + k), T(0));
      if (bits_of(T(tg(i, j, k))) != bits_of(exp)) {
        std::ostringstream os; os << "R bad i=" << i << "," << j << "," << k; status = os.str(); break;
      }
    }
  }
  return g.str() + " | H " + h + " | " + status;
}

template <typename T, int N> static std::string asgf_n(int shape, long t, long kf, long k1) {
  typedef FixedArray<T, false, N> FA;
  Placed<T, FA> pf(kf);
  FA& f = *pf.f;
  for (int i = 0; i < N; ++i) f(i) = vb<T>(i);
  Bufs<T>& B = Bufs<T>::get();
  for (int i = 0; i < L1; ++i) B.bt.data()[i] = T(SENT);
  Array<1, T> tg = view1(B.bt, t, 1, N), a = view1(B.ba, k1, 1, N);
  // shape 1 (tgt = f): Array::assign_expression_ takes its argument by value, so what is read is a copy of the
  // FixedArray on the stack; its address is not observable from here
  std::string ft = shape == 1 ? std::string("F:?:") + join(std::vector<long>(1, N)) : fixed_token<T>(f, std::vector<long>(1, N));
  std::string at = leaf_token(a);
  std::ostringstream g;
  g << "G asg " << internal::Packet<T>::size << " " << target_token(tg) << " "
    << (shape == 0 ? "B " + ft + " " + at : shape == 1 ? ft : "B " + at + " " + ft);
  std::string status;
  hook_reset();
  if (shape == 0) GUARDED(tg = f + a, status);
  else if (shape == 1) GUARDED(tg = f, status);
  else GUARDED(tg = a + f, status);
  std::string h = hook_line();
  if (status.empty()) {
    status = "R ok";
    for (long i = 0; i < L1 && status == "R ok"; ++i) {
      long j = (i >= t && i - t < N) ? i - t : -1;
      T got = B.bt.data()[i];
      if (j < 0) { if (got != T(SENT)) { std::ostringstream os; os << "R guard i=" << i; status = os.str(); } }
      else {
        T exp = shape == 1 ? vb<T>(j) : T(vb<T>(j) + va<T>(k1 + j));
        if (bits_of(got) != bits_of(exp)) { std::ostringstream os; os << "R bad i=" << j; status = os.str(); }
      }
    }
  }
  return g.str() + " | H " + h + " | " + status;
}
template <typename T> static std::string asgf(const Words& w) {
  if (w.size() != 7) return "bad-op";
  int shape = atoi(w[2].c_str()); long N = atol(w[3].c_str()), t = atol(w[4].c_str()), kf = atol(w[5].c_str()), k1 = atol(w[6].c_str());
  if (shape < 0 || shape > 2 || t < 0 || t > 64 || kf < 0 || kf > 64 || k1 < 0 || k1 > 64) return "bad-op";
  if (N == 8) return asgf_n<T, 8>(shape, t, kf, k1);
  if (N == 19) return asgf_n<T, 19>(shape, t, kf, k1);
  if (N == 35) return asgf_n<T, 35>(shape, t, kf, k1);
  if (N == 67) return asgf_n<T, 67>(shape, t, kf, k1);
  return "bad-op";
}

template <typename T, int M, int N> static std::string asgf2_mn(long kf, long tP) {
  typedef FixedArray<T, false, M, N> FA;
  Placed<T, FA> pf(kf);
  FA& f = *pf.f;
  for (int i = 0; i < M; ++i) for (int j = 0; j < N; ++j) f(i, j) = va<T>(i * 31 + j);
  Mat<T> tg(M, N, 0, tP, -1);
  std::vector<long> dims; dims.push_back(M); dims.push_back(N);
  std::ostringstream g;
  g << "G asg " << internal::Packet<T>::size << " " << target_token(tg.v) << " U " << fixed_token<T>(f, dims);
  std::string status;
  hook_reset();
  GUARDED(tg.v = f + T(1), status);
  std::string h = hook_line();
  if (status.empty()) {
    status = "R ok";
    for (int i = 0; i < M && status == "R ok"; ++i) for (int j = 0; j < N; ++j)
      if (bits_of(T(tg.v(i, j))) != bits_of(T(va<T>(i * 31 + j) + T(1)))) {
        std::ostringstream os; os << "R bad i=" << i << "," << j; status = os.str(); break;
      }
  }
  return g.str() + " | H " + h + " | " + status;
}
template <typename T> static std::string asgf2(const Words& w) {
  if (w.size() != 5) return "bad-op";
  long kf = atol(w[3].c_str()), tP = atol(w[4].c_str());
  if (kf < 0 || kf > 64 || tP < 0 || tP > 200) return "bad-op";
  if (w[2] == "3x5" && (tP == 0 || tP >= 5)) return asgf2_mn<T, 3, 5>(kf, tP);
  if (w[2] == "3x8" && (tP == 0 || tP >= 8)) return asgf2_mn<T, 3, 8>(kf, tP);
  if (w[2] == "2x19" && (tP == 0 || tP >= 19)) return asgf2_mn<T, 2, 19>(kf, tP);
  if (w[2] == "2x32" && (tP == 0 || tP >= 32)) return asgf2_mn<T, 2, 32>(kf, tP);
  if (w[2] == "2x35" && (tP == 0 || tP >= 35)) return asgf2_mn<T, 2, 35>(kf, tP);
  return "bad-op";
}

// ---- packing rule
template <typename T> static std::string pack(const Words& w, bool contiguous) {
  if (w.size() != 3) return "bad-op";
  std::vector<long> d = csv(w[2]);
  std::vector<long> off, od;
  for (size_t i = 0; i < d.size(); ++i) if (d[i] < 1 || d[i] > 300) return "bad-op";
  if (d.size() == 2) {
    Array<2, T> a; if (contiguous) a.resize_contiguous(d[0], d[1]); else a.resize(d[0], d[1]);
    off.push_back(a.offset(0)); od.push_back(d[0]);
    if (a.offset(1) != 1) return "R bad inner offset";
  } else if (d.size() == 3) {
    Array<3, T> a; if (contiguous) a.resize_contiguous(d[0], d[1], d[2]); else a.resize(d[0], d[1], d[2]);
    off.push_back(a.offset(0)); off.push_back(a.offset(1)); od.push_back(d[0]); od.push_back(d[1]);
    if (a.offset(2) != 1) return "R bad inner offset";
  } else return "bad-op";
  std::ostringstream os;
  os << "G " << (contiguous ? "packc " : "pack ") << internal::Packet<T>::size << " " << join(od) << ":" << d.back()
     << " | H off " << join(off) << " | R ok";
  return os.str();
}


template <typename T> static std::string dispatch_asg(const Words& w) {
  const std::string& op = w[0];
  if (op == "asg1") return asg1<T>(w);
  if (op == "asg2") return asg2<T>(w);
  if (op == "asg3") return asg3<T>(w);
  if (op == "asgf") return asgf<T>(w);
  if (op == "asgf2") return asgf2<T>(w);
  if (op == "pack") return pack<T>(w, false);
  if (op == "packc") return pack<T>(w, true);
  return "bad-op";
}
#endif
