// Shared part of the generated translation units of check C01 (checks/c01.py).
//  * line-protocol helpers for the Adept side (same lines as lean/Driver/ExprDrv.lean prints)
//  * `dual::Dual`: the independent oracle.  A hand-written forward-mode number carrying the value, the
//    derivative with respect to up to NMAX inputs, and for every derivative the sum of the absolute values of the
//    terms it was accumulated from (the scale against which rounding differences are judged).  Textbook rules,
//    written without reference to Adept's derivative tables (several on purpose in a different algebraic form:
//    tan' = 1 + tan^2, tanh' = 1/cosh^2, quotient rule, ...).  It shares nothing with Adept except libm and, for
//    `fastexp`, the raw function adept::fastexp(double) whose *value* is not what is under test.
#ifndef VERIF_C01_COMMON_H
#define VERIF_C01_COMMON_H
#include "spy.h"
#include <cmath>
#include <cstdint>
#include <cstring>

namespace c01 {

inline std::string hex(double x) {
  uint64_t b; std::memcpy(&b, &x, 8);
  char buf[24]; snprintf(buf, sizeof buf, "%016llx", (unsigned long long)b);
  return buf;
}
// inputs are read through a volatile so that no libm call is folded at compile time
inline double inval(const volatile uint64_t& bits) {
  uint64_t b = bits; double x; std::memcpy(&x, &b, 8); return x;
}
inline void ok() { std::cout << "ok\n"; }
inline void ok_idx(const adept::adouble* p) { std::cout << "ok " << p->gradient_index() << "\n"; }
inline void ok_val(const adept::adouble* p) { std::cout << "ok " << hex(p->value()) << "\n"; }
inline void ok_idx_val(const adept::adouble* p) {
  std::cout << "ok " << p->gradient_index() << " " << hex(p->value()) << "\n";
}
inline void val(const adept::adouble* p) { std::cout << "v " << hex(p->value()) << "\n"; }
// `x = outer(adouble(inner))`: the temporary's gradient index is the lhs of the statement before the last one
inline void ok_tmp_val(verif::SpyStack& st, const adept::adouble* p) {
  std::cout << "ok " << st.st_index(st.n_statements() - 2) << " " << hex(p->value()) << "\n";
}
inline void print_tape(verif::SpyStack& st) {
  std::ostringstream os;
  os << "T " << st.n_statements() << " " << st.n_operations() << " | ";
  for (adept::uIndex i = 1; i < st.n_statements(); ++i) {
    if (i > 1) os << " | ";
    os << st.st_index(i) << ":";
    for (adept::uIndex j = st.st_end(i - 1); j < st.st_end(i); ++j) {
      if (j > st.st_end(i - 1)) os << ",";
      os << hex(st.op_mult(j)) << "*" << st.op_index(j);
    }
  }
  std::cout << os.str() << "\n";
}
// Jacobian of the dependents (rows) w.r.t. the independents (columns), row-major, as hex
inline void print_jacobian(verif::SpyStack& st, int m, int n) {
  std::vector<double> J(m * n > 0 ? m * n : 1, 0.0);
  // As the property says: seed one output with 1, run the ADJOINT PASS, read the gradient of every input
  // (row i of the Jacobian); Stack::jacobian() itself is the subject of C02.
  for (int i = 0; i < m; ++i) {
    st.clear_gradients();
    double one = 1.0;
    adept::uIndex di = st.dep_idx(i);
    st.set_gradients(di, di + 1, &one);
    st.compute_adjoint();
    for (int j = 0; j < n; ++j) {
      adept::uIndex xj = st.indep_idx(j);
      st.get_gradients(xj, xj + 1, &J[i * n + j]);
    }
  }
  st.clear_gradients();
  std::cout << "J " << m << " " << n << " :";
  for (int i = 0; i < m * n; ++i) std::cout << " " << hex(J[i]);
  std::cout << "\n";
}

} // namespace c01

namespace dual {

const int NMAX = 6;

struct Dual {
  double v;          // value
  double d[NMAX];    // derivative w.r.t. input j
  double a[NMAX];    // sum of |terms| accumulated into d[j]
  Dual() : v(0.0) { for (int j = 0; j < NMAX; ++j) d[j] = a[j] = 0.0; }
  Dual(double c) : v(c) { for (int j = 0; j < NMAX; ++j) d[j] = a[j] = 0.0; }
  Dual(int c) : v(c) { for (int j = 0; j < NMAX; ++j) d[j] = a[j] = 0.0; }
  static Dual input(double x, int j) { Dual r(x); r.d[j] = 1.0; r.a[j] = 1.0; return r; }
};

// z = f(x): z' = fp * x'
inline Dual chain1(double z, double fp, const Dual& x) {
  Dual r(z);
  for (int j = 0; j < NMAX; ++j) { r.d[j] = fp * x.d[j]; r.a[j] = std::fabs(fp) * x.a[j]; }
  return r;
}
// z = f(x, y): z' = fx * x' + fy * y'
inline Dual chain2(double z, double fx, const Dual& x, double fy, const Dual& y) {
  Dual r(z);
  for (int j = 0; j < NMAX; ++j) {
    r.d[j] = fx * x.d[j] + fy * y.d[j];
    r.a[j] = std::fabs(fx) * x.a[j] + std::fabs(fy) * y.a[j];
  }
  return r;
}

// ---- arithmetic
inline Dual operator+(const Dual& x, const Dual& y) { return chain2(x.v + y.v, 1.0, x, 1.0, y); }
inline Dual operator-(const Dual& x, const Dual& y) { return chain2(x.v - y.v, 1.0, x, -1.0, y); }
inline Dual operator*(const Dual& x, const Dual& y) { return chain2(x.v * y.v, y.v, x, x.v, y); }
inline Dual operator/(const Dual& x, const Dual& y) {
  double q = x.v / y.v;                                  // quotient rule: (x' - q y') / y
  return chain2(q, 1.0 / y.v, x, -q / y.v, y);
}
inline Dual operator-(const Dual& x) { return chain1(-x.v, -1.0, x); }
inline Dual operator+(const Dual& x) { return x; }

// ---- elementary functions
inline Dual log(const Dual& x) { return chain1(std::log(x.v), 1.0 / x.v, x); }
inline Dual log10(const Dual& x) { return chain1(std::log10(x.v), 1.0 / (x.v * std::log(10.0)), x); }
inline Dual log2(const Dual& x) { return chain1(std::log2(x.v), 1.0 / (x.v * std::log(2.0)), x); }
inline Dual log1p(const Dual& x) { return chain1(std::log1p(x.v), 1.0 / (1.0 + x.v), x); }
inline Dual exp(const Dual& x) { double e = std::exp(x.v); return chain1(e, e, x); }
inline Dual exp2(const Dual& x) { double e = std::exp2(x.v); return chain1(e, std::log(2.0) * e, x); }
inline Dual expm1(const Dual& x) { return chain1(std::expm1(x.v), std::exp(x.v), x); }
inline Dual fastexp(const Dual& x) { double e = adept::fastexp(x.v); return chain1(e, e, x); }
inline Dual sin(const Dual& x) { return chain1(std::sin(x.v), std::cos(x.v), x); }
inline Dual cos(const Dual& x) { return chain1(std::cos(x.v), -std::sin(x.v), x); }
inline Dual tan(const Dual& x) { double t = std::tan(x.v); return chain1(t, 1.0 + t * t, x); }
inline Dual asin(const Dual& x) { return chain1(std::asin(x.v), 1.0 / std::sqrt((1.0 - x.v) * (1.0 + x.v)), x); }
inline Dual acos(const Dual& x) { return chain1(std::acos(x.v), -1.0 / std::sqrt((1.0 - x.v) * (1.0 + x.v)), x); }
inline Dual atan(const Dual& x) { return chain1(std::atan(x.v), 1.0 / (1.0 + x.v * x.v), x); }
inline Dual sinh(const Dual& x) { return chain1(std::sinh(x.v), std::cosh(x.v), x); }
inline Dual cosh(const Dual& x) { return chain1(std::cosh(x.v), std::sinh(x.v), x); }
inline Dual tanh(const Dual& x) { double c = std::cosh(x.v); return chain1(std::tanh(x.v), 1.0 / (c * c), x); }
inline Dual asinh(const Dual& x) { return chain1(std::asinh(x.v), 1.0 / std::sqrt(x.v * x.v + 1.0), x); }
inline Dual acosh(const Dual& x) { return chain1(std::acosh(x.v), 1.0 / (std::sqrt(x.v - 1.0) * std::sqrt(x.v + 1.0)), x); }
inline Dual atanh(const Dual& x) { return chain1(std::atanh(x.v), 1.0 / ((1.0 - x.v) * (1.0 + x.v)), x); }
inline Dual sqrt(const Dual& x) { double s = std::sqrt(x.v); return chain1(s, 1.0 / (2.0 * s), x); }
inline Dual cbrt(const Dual& x) { double c = std::cbrt(x.v); return chain1(c, 1.0 / (3.0 * c * c), x); }
inline Dual erf(const Dual& x) { return chain1(std::erf(x.v), 2.0 / std::sqrt(M_PI) * std::exp(-(x.v * x.v)), x); }
inline Dual erfc(const Dual& x) { return chain1(std::erfc(x.v), -2.0 / std::sqrt(M_PI) * std::exp(-(x.v * x.v)), x); }
inline double sgn(double x) { return x > 0.0 ? 1.0 : (x < 0.0 ? -1.0 : 0.0); }
inline Dual abs(const Dual& x) { return chain1(std::fabs(x.v), sgn(x.v), x); }
inline Dual fabs(const Dual& x) { return chain1(std::fabs(x.v), sgn(x.v), x); }
// piecewise constant
inline Dual ceil(const Dual& x) { return Dual(std::ceil(x.v)); }
inline Dual floor(const Dual& x) { return Dual(std::floor(x.v)); }
inline Dual round(const Dual& x) { return Dual(std::round(x.v)); }
inline Dual trunc(const Dual& x) { return Dual(std::trunc(x.v)); }
inline Dual rint(const Dual& x) { return Dual(std::rint(x.v)); }
inline Dual nearbyint(const Dual& x) { return Dual(std::nearbyint(x.v)); }

// ---- binary functions
inline Dual pow(const Dual& x, const Dual& y) {
  double p = std::pow(x.v, y.v);
  return chain2(p, y.v * std::pow(x.v, y.v - 1.0), x, p * std::log(x.v), y);
}
inline Dual pow(const Dual& x, double c) { return chain1(std::pow(x.v, c), c * std::pow(x.v, c - 1.0), x); }
inline Dual pow(const Dual& x, int c) { return pow(x, (double)c); }
inline Dual pow(double c, const Dual& y) { double p = std::pow(c, y.v); return chain1(p, p * std::log(c), y); }
inline Dual pow(int c, const Dual& y) { return pow((double)c, y); }
inline Dual atan2(const Dual& y, const Dual& x) {
  double r2 = x.v * x.v + y.v * y.v;
  return chain2(std::atan2(y.v, x.v), x.v / r2, y, -y.v / r2, x);
}
inline Dual atan2(double y, const Dual& x) { return atan2(Dual(y), x); }
inline Dual atan2(int y, const Dual& x) { return atan2(Dual(y), x); }
// at a tie the derivative of max/min does not exist; the convention documented for Adept (and stated as a
// separate lemma in Props/C01.lean) is used: max takes the right operand at a tie, min the left one
inline Dual max(const Dual& x, const Dual& y) { return x.v > y.v ? x : y; }
inline Dual min(const Dual& x, const Dual& y) { return x.v <= y.v ? x : y; }
inline Dual fmax(const Dual& x, const Dual& y) { return max(x, y); }
inline Dual fmin(const Dual& x, const Dual& y) { return min(x, y); }

// y.add_derivative_dependence(x, m): dy = m dx;  append: dy += m dx   (the value of y is untouched)
inline void add_dep(Dual& y, const Dual& x, double m) {
  Dual t = x;
  for (int j = 0; j < NMAX; ++j) { y.d[j] = m * t.d[j]; y.a[j] = std::fabs(m) * t.a[j]; }
}
inline void append_dep(Dual& y, const Dual& x, double m) {
  for (int j = 0; j < NMAX; ++j) { y.d[j] += m * x.d[j]; y.a[j] += std::fabs(m) * x.a[j]; }
}

inline void val(const Dual& x) { std::cout << "dv " << c01::hex(x.v) << "\n"; }
inline void print_row(const Dual& x, int n) {
  std::cout << "dj";
  for (int j = 0; j < n; ++j) std::cout << " " << c01::hex(x.d[j]) << "/" << c01::hex(x.a[j]);
  std::cout << "\n";
}

} // namespace dual
#endif
