// rank-6 operator() with int-family arguments, const and non-const (see drv_views.cpp)
#include "drv_views.h"
VIEWS_DEFINE_SLICE_FAMILY(6, slice_int, FAM_INT)
