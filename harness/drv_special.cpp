// Correspondence driver for the special-matrix engines (model AdeptModel/Special.lean, property C17).
// usage: drv_special < ops            one result line per op; every op is self-contained:
//
//   <op> <engine> <L> <U> <n> [args]
//     engine : SquareEngine_ROW_MAJOR | SquareEngine_COL_MAJOR | BandEngine_ROW_MAJOR | BandEngine_COL_MAJOR |
//              SymmEngine_ROW_LOWER_COL_UPPER | SymmEngine_ROW_UPPER_COL_LOWER | LowerEngine_{ROW,COL}_MAJOR |
//              UpperEngine_{ROW,COL}_MAJOR;  L U = band widths (0 0 for the others); band shapes of the fixed list only
//     The matrix M (engine, n x n) owns fresh storage whose raw element k holds k+1 (so a value read names the raw
//     element it came from, 0 = structural zero); N is a second matrix of the same type with raw element k = 1001+k;
//     targets of assignments are pre-filled with -1 in every raw element.
//   caps                 lvalue=<0|1>     does `M(i,j) = x` compile for a passive matrix of this engine
//   info                 offset=<offset()> size=<data_range length> contiguous=<is_contiguous()>
//   get                  const M(i,j) for all (i,j), row by row
//   ptr p|a              &M(i,j) - M.data() (passive / active matrix), `z` where index_out_of_bounds is thrown
//   wr p|a i j           M(i,j) = 1000; then every changed (i',j') of the dense view and every changed raw element
//   dense                Matrix D(M)
//   fromdense s|a        S = D with D(i,j) = 100*min(i,j)+max(i,j)+1 (s) or 100*i+j+1 (a): raw elements and dense view of S
//   scalar               S = 5.0: raw elements and dense view
//   T                    Matrix(M.T()), const reads of M.T(), Matrix(M.T().T())
//   diag k               elements of M.diag_vector(k) (`oob` if it throws)
//   wrdiag k t           M.diag_vector(k)(t) = 1000: changes as for wr
//   sub a b              X = M.submatrix_on_diagonal(a,b): const reads of X, Matrix(X), Matrix(X.T())  (`oob` if it throws)
//   expr                 Matrix R = M*2.0 + N
//   exprT                Matrix R = M*2.0 + N.T()
//   assign               S = M*2.0 + N     (S of the same type): raw elements and dense view
//   assignT              S = M*2.0 + N.T()
//   compositions: X = M.submatrix_on_diagonal(a,b) (a view with offset() > pack_offset(dimension())), then
//   sinfo a b            offset=<X.offset()> size=<X data_range length> contiguous=<X.is_contiguous()>
//   sdiag a b k          elements of X.diag_vector(k)            (`oob` if anything throws index_out_of_bounds)
//   sTdiag a b k         elements of X.T().diag_vector(k)
//   swrdiag a b k t      X.diag_vector(k)(t) = 1000: changed (i,j) of the dense view of M and changed raw elements of M
//   swr a b p|a i j      X(i,j) = 1000 (passive / active lvalue): changes of M as for wr
//   sT a b               Matrix(X.T()), const reads of X.T(), Matrix(X.T().T())
//   ssub a b a2 b2       Y = X.submatrix_on_diagonal(a2,b2): const reads of Y, Matrix(Y), Matrix(Y.T())
//   sassign a b          S.submatrix_on_diagonal(a,b) = M.submatrix_on_diagonal(a,b)*2.0 + N.submatrix_on_diagonal(a,b).T()
//                        (S of the same type, every raw element -1 before): raw elements and dense view of S
//   self-referential statements (the right-hand side reads the storage of the target).  Result:
//     alias=<rhs.is_aliased(target.data_range)> raw=<raw elements of M> view=<dense view of M> dense=<D afterwards>
//   where D = Matrix(M) and the same statement was executed on D; `oob` / `mismatch` if the library throws
//   index_out_of_bounds / size_mismatch.
//   selfsub a b c d f    M.submatrix_on_diagonal(a,b) = F(M.submatrix_on_diagonal(c,d)) with F(X) =
//                        k2: 2.0*X   cp: X   sum: 2.0*X + X   T: X.T()   mixT: 2.0*X + X.T()
//                        dense: D(range(a,b),range(a,b)) = F(D(range(c,d),range(c,d)))
//   selfT                M = M.T()                 dense: D = D.T()
//   selfexpr             M = 2.0*M + M             dense: D = 2.0*D + D
//   selfdiag k k2 f      M.diag_vector(k) = F(M.diag_vector(k2)) with F(w) =
//                        k2: 2.0*w   cp: w   sum: 2.0*w + w   rev: 2.0*w(stride(len-1,0,-1))
//                        dense: D.diag_vector(k) = F(D.diag_vector(k2))
//   dmat s               (BandEngine_ROW_MAJOR 0 0 only) D = v.diag_matrix() for the n-element view v of stride s of a
//                        vector holding 1,2,3,...: offset(), const reads of D, Matrix(D), Matrix(D.T())
#include "spy.h"
#include <type_traits>
#include <utility>
#include <cmath>
using namespace adept;
using namespace adept::internal;

static std::string num(double v) {
  char buf[64];
  if (v == std::floor(v) && std::fabs(v) < 1e15) snprintf(buf, sizeof buf, "%lld", (long long)v);
  else snprintf(buf, sizeof buf, "%.17g", v);
  return buf;
}

template <class E> struct passive_lvalue_ok {
  typedef decltype(std::declval<E&>().template get_reference<false, Real>(0, 0, 0, 0, 0, (Real*)0)) R;
  static const bool value = std::is_same<R, Real&>::value;
};

struct RefSpy : public ActiveReference<Real> {   // ActiveReference::lvalue() is protected
  RefSpy(const ActiveReference<Real>& r) : ActiveReference<Real>(r) {}
  Real* addr() { return &lvalue(); }
};

template <class SM> static Index raw_size(const SM& M) {
  const Real *b, *e;
  M.data_range(b, e);
  return (Index)(e - b) + 1;
}
template <class SM> static void fill_raw(SM& M, double base, double step) {
  Index sz = raw_size(M);
  for (Index k = 0; k < sz; ++k) M.data()[k] = base + step * k;
}
template <class SM> static std::vector<double> view(const SM& M) {
  Index n = M.dimension();
  std::vector<double> v;
  for (Index i = 0; i < n; ++i) for (Index j = 0; j < n; ++j) v.push_back(M(i, j));
  return v;
}
template <class SM> static std::vector<double> raw(const SM& M) {
  Index sz = raw_size(M);
  return std::vector<double>(M.data(), M.data() + sz);
}
static std::string list(const std::vector<double>& v) {
  std::string s;
  for (size_t k = 0; k < v.size(); ++k) { if (k) s += ","; s += num(v[k]); }
  return s.empty() ? "-" : s;
}
static std::string mat(const Matrix& D) {
  std::vector<double> v;
  for (Index i = 0; i < D.dimension(0); ++i) for (Index j = 0; j < D.dimension(1); ++j) v.push_back(D(i, j));
  return list(v);
}
static std::string changes(const std::vector<double>& v0, const std::vector<double>& v1, Index n,
                           const std::vector<double>& r0, const std::vector<double>& r1) {
  std::ostringstream os;
  os << "chg=";
  bool first = true;
  for (size_t k = 0; k < v0.size(); ++k)
    if (v0[k] != v1[k]) { os << (first ? "" : ",") << k / n << ":" << k % n << ":" << num(v1[k]); first = false; }
  if (first) os << "-";
  os << " raw=";
  first = true;
  for (size_t k = 0; k < r0.size(); ++k)
    if (r0[k] != r1[k]) { os << (first ? "" : ",") << k << ":" << num(r1[k]); first = false; }
  if (first) os << "-";
  return os.str();
}

// ---- element lvalue access, passive (only where it compiles) and active
template <class SM, bool OK> struct PassiveLv {
  static bool ptr(SM& M, Index i, Index j, long& off) {
    try { Real& r = M(i, j); off = &r - M.data(); return true; } catch (const index_out_of_bounds&) { return false; }
  }
  static bool write(SM& M, Index i, Index j, double v) {
    try { M(i, j) = v; return true; } catch (const index_out_of_bounds&) { return false; }
  }
};
template <class SM> struct PassiveLv<SM, false> {
  static bool ptr(SM&, Index, Index, long& off) { off = -999999; return true; }
  static bool write(SM&, Index, Index, double) { return false; }
};

template <class E> struct Ops {
  typedef SpecialMatrix<Real, E, false> SM;
  typedef SpecialMatrix<Real, E, true> ASM;
  typedef SpecialMatrix<Real, typename E::transpose_engine, false> TSM;
  static const bool LV = passive_lvalue_ok<E>::value;

  static std::string run(const std::vector<std::string>& w) {
    const std::string& op = w[0];
    Index n = atoi(w[4].c_str());
    if (n < 1 || n > 64) return "bad-op";
    size_t na = w.size() - 5;
    std::ostringstream os;
    if (op == "caps" && na == 0) { os << "lvalue=" << (LV ? 1 : 0); return os.str(); }
    SM M(n); fill_raw(M, 1, 1);
    if (op == "info" && na == 0) {
      os << "offset=" << M.offset() << " size=" << raw_size(M) << " contiguous=" << (M.is_contiguous() ? 1 : 0);
      return os.str();
    }
    if (op == "get" && na == 0) return list(view(M));
    if (op == "ptr" && na == 1 && (w[5] == "p" || w[5] == "a")) {
      bool act = w[5] == "a";
      if (!act && !LV) return "unsupported";
      ASM A;
      if (act) { A.resize(n); }
      for (Index i = 0; i < n; ++i) for (Index j = 0; j < n; ++j) {
        if (i || j) os << ",";
        if (!act) {
          long off;
          if (PassiveLv<SM, LV>::ptr(M, i, j, off)) os << off; else os << "z";
        } else {
          try {
            RefSpy r(A(i, j));
            long off = r.addr() - A.data();
            long goff = (long)r.gradient_index() - (long)A.gradient_index();
            if (off != goff) os << off << "!" << goff; else os << off;
          } catch (const index_out_of_bounds&) { os << "z"; }
        }
      }
      return os.str();
    }
    if (op == "wr" && na == 3 && (w[5] == "p" || w[5] == "a")) {
      bool act = w[5] == "a";
      Index i = atoi(w[6].c_str()), j = atoi(w[7].c_str());
      if (i < 0 || j < 0 || i >= n || j >= n) return "bad-op";
      if (!act) {
        if (!LV) return "unsupported";
        std::vector<double> v0 = view(M), r0 = raw(M);
        if (!PassiveLv<SM, LV>::write(M, i, j, 1000.0)) return "oob";
        return changes(v0, view(M), n, r0, raw(M));
      } else {
        ASM A(n); fill_raw(A, 1, 1);
        SM P(A.data(), n);   // passive view of the same storage (A.inactive_link() does not compile: protected members)
        std::vector<double> v0 = view(P), r0 = raw(P);
        try { A(i, j) = 1000.0; } catch (const index_out_of_bounds&) { return "oob"; }
        return changes(v0, view(P), n, r0, raw(P));
      }
    }
    if (op == "dense" && na == 0) { Matrix D(M); return mat(D); }
    if (op == "fromdense" && na == 1 && (w[5] == "s" || w[5] == "a")) {
      Matrix D(n, n);
      for (Index i = 0; i < n; ++i) for (Index j = 0; j < n; ++j)
        D(i, j) = w[5] == "s" ? 100.0 * std::min(i, j) + std::max(i, j) + 1 : 100.0 * i + j + 1;
      SM S(n); fill_raw(S, -1, 0);
      S = D;
      os << "raw=" << list(raw(S)) << " view=" << list(view(S));
      return os.str();
    }
    if (op == "scalar" && na == 0) {
      SM S(n); fill_raw(S, -1, 0);
      S = 5.0;
      os << "raw=" << list(raw(S)) << " view=" << list(view(S));
      return os.str();
    }
    if (op == "T" && na == 0) {
      Matrix D(M.T());
      const TSM Tm = M.T();
      Matrix D2(M.T().T());
      os << "conv=" << mat(D) << " get=" << list(view(Tm)) << " convTT=" << mat(D2);
      return os.str();
    }
    if (op == "diag" && na == 1) {
      Index k = atoi(w[5].c_str());
      if (k <= -n || k >= n) return "bad-op";
      try {
        Vector d = M.diag_vector(k);
        std::vector<double> v;
        for (Index t = 0; t < d.size(); ++t) v.push_back(d(t));
        return list(v);
      } catch (const index_out_of_bounds&) { return "oob"; }
    }
    if (op == "wrdiag" && na == 2) {
      Index k = atoi(w[5].c_str()), t = atoi(w[6].c_str());
      Index len = n - (k < 0 ? -k : k);
      if (k <= -n || k >= n || t < 0 || t >= len) return "bad-op";
      std::vector<double> v0 = view(M), r0 = raw(M);
      try { Vector d = M.diag_vector(k); d(t) = 1000.0; } catch (const index_out_of_bounds&) { return "oob"; }
      return changes(v0, view(M), n, r0, raw(M));
    }
    if (op == "sub" && na == 2) {
      Index a = atoi(w[5].c_str()), b = atoi(w[6].c_str());
      try {
        SM X0 = M.submatrix_on_diagonal(a, b);
        const SM X(X0);
        Matrix D(X);
        Matrix Dt(X0.T());
        os << "get=" << list(view(X)) << " conv=" << mat(D) << " convT=" << mat(Dt);
        return os.str();
      } catch (const index_out_of_bounds&) { return "oob"; }
    }
    if (op == "sinfo" || op == "sdiag" || op == "sTdiag" || op == "swrdiag" || op == "swr" || op == "sT" || op == "ssub" ||
        op == "sassign") {
      if (na < 2) return "bad-op";
      Index a = atoi(w[5].c_str()), b = atoi(w[6].c_str());
      try {
        if (op == "swr" && na == 5 && w[7] == "a") {
          Index i = atoi(w[8].c_str()), j = atoi(w[9].c_str());
          ASM A(n); fill_raw(A, 1, 1);
          SM P(A.data(), n);
          ASM XA = A.submatrix_on_diagonal(a, b);
          if (i < 0 || j < 0 || i >= XA.dimension() || j >= XA.dimension()) return "bad-op";
          std::vector<double> v0 = view(P), r0 = raw(P);
          XA(i, j) = 1000.0;
          return changes(v0, view(P), n, r0, raw(P));
        }
        SM X = M.submatrix_on_diagonal(a, b);
        Index m = X.dimension();
        if (op == "sinfo" && na == 2) {
          os << "offset=" << X.offset() << " size=" << raw_size(X) << " contiguous=" << (X.is_contiguous() ? 1 : 0);
          return os.str();
        }
        if ((op == "sdiag" || op == "sTdiag") && na == 3) {
          Index k = atoi(w[7].c_str());
          if (k <= -m || k >= m) return "bad-op";
          std::vector<double> v;
          if (op == "sdiag") { Vector d = X.diag_vector(k); for (Index t = 0; t < d.size(); ++t) v.push_back(d(t)); }
          else { TSM Xt = X.T(); Vector d = Xt.diag_vector(k); for (Index t = 0; t < d.size(); ++t) v.push_back(d(t)); }
          return list(v);
        }
        if (op == "swrdiag" && na == 4) {
          Index k = atoi(w[7].c_str()), t = atoi(w[8].c_str());
          Index len = m - (k < 0 ? -k : k);
          if (k <= -m || k >= m || t < 0 || t >= len) return "bad-op";
          std::vector<double> v0 = view(M), r0 = raw(M);
          Vector d = X.diag_vector(k);
          d(t) = 1000.0;
          return changes(v0, view(M), n, r0, raw(M));
        }
        if (op == "swr" && na == 5 && w[7] == "p") {
          Index i = atoi(w[8].c_str()), j = atoi(w[9].c_str());
          if (i < 0 || j < 0 || i >= m || j >= m) return "bad-op";
          if (!LV) return "unsupported";
          std::vector<double> v0 = view(M), r0 = raw(M);
          if (!PassiveLv<SM, LV>::write(X, i, j, 1000.0)) return "oob";
          return changes(v0, view(M), n, r0, raw(M));
        }
        if (op == "sT" && na == 2) {
          Matrix D(X.T());
          const TSM Tm = X.T();
          Matrix D2(X.T().T());
          os << "conv=" << mat(D) << " get=" << list(view(Tm)) << " convTT=" << mat(D2);
          return os.str();
        }
        if (op == "ssub" && na == 4) {
          Index a2 = atoi(w[7].c_str()), b2 = atoi(w[8].c_str());
          SM Y0 = X.submatrix_on_diagonal(a2, b2);
          const SM Y(Y0);
          Matrix D(Y);
          Matrix Dt(Y0.T());
          os << "get=" << list(view(Y)) << " conv=" << mat(D) << " convT=" << mat(Dt);
          return os.str();
        }
        if (op == "sassign" && na == 2) {
          SM N2(n); fill_raw(N2, 1001, 1);
          SM S(n); fill_raw(S, -1, 0);
          S.submatrix_on_diagonal(a, b) = M.submatrix_on_diagonal(a, b) * 2.0 + N2.submatrix_on_diagonal(a, b).T();
          os << "raw=" << list(raw(S)) << " view=" << list(view(S));
          return os.str();
        }
        return "bad-op";
      }
      catch (const index_out_of_bounds&) { return "oob"; }
    }
    if (op == "selfsub" && na == 5) {
      Index a = atoi(w[5].c_str()), b = atoi(w[6].c_str()), c = atoi(w[7].c_str()), d = atoi(w[8].c_str());
      const std::string& f = w[9];
      if (f != "k2" && f != "cp" && f != "sum" && f != "T" && f != "mixT") return "bad-op";
      try {
        SM X = M.submatrix_on_diagonal(a, b);
        SM Y = M.submatrix_on_diagonal(c, d);
        Matrix D(M);
        const Real *pb, *pe;
        X.data_range(pb, pe);
        int al;
        if (f == "k2") {
          al = (2.0 * Y).is_aliased(pb, pe);
          M.submatrix_on_diagonal(a, b) = 2.0 * M.submatrix_on_diagonal(c, d);
          D(range(a, b), range(a, b)) = 2.0 * D(range(c, d), range(c, d));
        } else if (f == "cp") {
          al = Y.is_aliased(pb, pe);
          M.submatrix_on_diagonal(a, b) = M.submatrix_on_diagonal(c, d);
          D(range(a, b), range(a, b)) = D(range(c, d), range(c, d));
        } else if (f == "sum") {
          al = (2.0 * Y + Y).is_aliased(pb, pe);
          M.submatrix_on_diagonal(a, b) = 2.0 * M.submatrix_on_diagonal(c, d) + M.submatrix_on_diagonal(c, d);
          D(range(a, b), range(a, b)) = 2.0 * D(range(c, d), range(c, d)) + D(range(c, d), range(c, d));
        } else if (f == "T") {
          al = Y.T().is_aliased(pb, pe);
          M.submatrix_on_diagonal(a, b) = M.submatrix_on_diagonal(c, d).T();
          D(range(a, b), range(a, b)) = D(range(c, d), range(c, d)).T();
        } else {
          al = (2.0 * Y + Y.T()).is_aliased(pb, pe);
          M.submatrix_on_diagonal(a, b) = 2.0 * M.submatrix_on_diagonal(c, d) + M.submatrix_on_diagonal(c, d).T();
          D(range(a, b), range(a, b)) = 2.0 * D(range(c, d), range(c, d)) + D(range(c, d), range(c, d)).T();
        }
        os << "alias=" << al << " raw=" << list(raw(M)) << " view=" << list(view(M)) << " dense=" << mat(D);
        return os.str();
      }
      catch (const index_out_of_bounds&) { return "oob"; }
      catch (const size_mismatch&) { return "mismatch"; }
    }
    if ((op == "selfT" || op == "selfexpr") && na == 0) {
      Matrix D(M);
      const Real *pb, *pe;
      M.data_range(pb, pe);
      int al;
      if (op == "selfT") { al = M.T().is_aliased(pb, pe); M = M.T(); D = D.T(); }
      else { al = (2.0 * M + M).is_aliased(pb, pe); M = 2.0 * M + M; D = 2.0 * D + D; }
      os << "alias=" << al << " raw=" << list(raw(M)) << " view=" << list(view(M)) << " dense=" << mat(D);
      return os.str();
    }
    if (op == "selfdiag" && na == 3) {
      Index k = atoi(w[5].c_str()), k2 = atoi(w[6].c_str());
      const std::string& f = w[7];
      if (k <= -n || k >= n || k2 <= -n || k2 >= n) return "bad-op";
      if (f != "k2" && f != "cp" && f != "sum" && f != "rev") return "bad-op";
      try {
        Vector v = M.diag_vector(k);
        Vector u = M.diag_vector(k2);
        Matrix D(M);
        const Real *pb, *pe;
        v.data_range(pb, pe);
        Index len = u.size();
        int al;
        if (f == "k2") {
          al = (2.0 * u).is_aliased(pb, pe);
          M.diag_vector(k) = 2.0 * M.diag_vector(k2);
          D.diag_vector(k) = 2.0 * D.diag_vector(k2);
        } else if (f == "cp") {
          al = u.is_aliased(pb, pe);
          M.diag_vector(k) = M.diag_vector(k2);
          D.diag_vector(k) = D.diag_vector(k2);
        } else if (f == "sum") {
          al = (2.0 * u + u).is_aliased(pb, pe);
          M.diag_vector(k) = 2.0 * M.diag_vector(k2) + M.diag_vector(k2);
          D.diag_vector(k) = 2.0 * D.diag_vector(k2) + D.diag_vector(k2);
        } else {
          al = (2.0 * u(stride(len - 1, 0, -1))).is_aliased(pb, pe);
          M.diag_vector(k) = 2.0 * M.diag_vector(k2)(stride(len - 1, 0, -1));
          D.diag_vector(k) = 2.0 * D.diag_vector(k2)(stride(len - 1, 0, -1));
        }
        os << "alias=" << al << " raw=" << list(raw(M)) << " view=" << list(view(M)) << " dense=" << mat(D);
        return os.str();
      }
      catch (const index_out_of_bounds&) { return "oob"; }
      catch (const size_mismatch&) { return "mismatch"; }
    }
    SM N(n); fill_raw(N, 1001, 1);
    if (op == "expr" && na == 0) { Matrix R; R = M * 2.0 + N; return mat(R); }
    if (op == "exprT" && na == 0) { Matrix R; R = M * 2.0 + N.T(); return mat(R); }
    if (op == "assign" && na == 0) {
      SM S(n); fill_raw(S, -1, 0);
      S = M * 2.0 + N;
      os << "raw=" << list(raw(S)) << " view=" << list(view(S));
      return os.str();
    }
    if (op == "assignT" && na == 0) {
      SM S(n); fill_raw(S, -1, 0);
      S = M * 2.0 + N.T();
      os << "raw=" << list(raw(S)) << " view=" << list(view(S));
      return os.str();
    }
    return "bad-op";
  }
};

static std::string run_dmat(const std::vector<std::string>& w) {
  if (w.size() != 6) return "bad-op";
  Index n = atoi(w[4].c_str()), s = atoi(w[5].c_str());
  if (n < 1 || n > 64 || s < 1 || s > 8) return "bad-op";
  Vector big(n * s);
  for (Index k = 0; k < n * s; ++k) big(k) = k + 1;
  Vector v = big(stride(0, n * s - 1, s));
  if (v.size() != n) return "bad-op";
  DiagMatrix D0 = v.diag_matrix();
  const DiagMatrix D(D0);
  Matrix C(D);
  Matrix Ct(D0.T());
  std::ostringstream os;
  os << "offset=" << D.offset() << " get=" << list(view(D)) << " conv=" << mat(C) << " convT=" << mat(Ct);
  return os.str();
}

template <MatrixStorageOrder Order> static std::string band(const std::vector<std::string>& w, int L, int U) {
#define VERIF_BAND(l, u) if (L == l && U == u) return Ops<BandEngine<Order, l, u> >::run(w);
  VERIF_BAND(0, 0) VERIF_BAND(1, 1) VERIF_BAND(2, 2) VERIF_BAND(0, 2) VERIF_BAND(2, 0) VERIF_BAND(3, 1) VERIF_BAND(1, 3) VERIF_BAND(4, 4)
#undef VERIF_BAND
  return "bad-op";
}

static std::string dispatch(const std::vector<std::string>& w) {
  if (w.size() < 5) return "bad-op";
  const std::string& e = w[1];
  int L = atoi(w[2].c_str()), U = atoi(w[3].c_str());
  if (w[0] == "dmat") return (e == "BandEngine_ROW_MAJOR" && L == 0 && U == 0) ? run_dmat(w) : std::string("bad-op");
  if (e == "BandEngine_ROW_MAJOR") return band<ROW_MAJOR>(w, L, U);
  if (e == "BandEngine_COL_MAJOR") return band<COL_MAJOR>(w, L, U);
  if (L != 0 || U != 0) return "bad-op";
  if (e == "SquareEngine_ROW_MAJOR") return Ops<SquareEngine<ROW_MAJOR> >::run(w);
  if (e == "SquareEngine_COL_MAJOR") return Ops<SquareEngine<COL_MAJOR> >::run(w);
  if (e == "SymmEngine_ROW_LOWER_COL_UPPER") return Ops<SymmEngine<ROW_LOWER_COL_UPPER> >::run(w);
  if (e == "SymmEngine_ROW_UPPER_COL_LOWER") return Ops<SymmEngine<ROW_UPPER_COL_LOWER> >::run(w);
  if (e == "LowerEngine_ROW_MAJOR") return Ops<LowerEngine<ROW_MAJOR> >::run(w);
  if (e == "LowerEngine_COL_MAJOR") return Ops<LowerEngine<COL_MAJOR> >::run(w);
  if (e == "UpperEngine_ROW_MAJOR") return Ops<UpperEngine<ROW_MAJOR> >::run(w);
  if (e == "UpperEngine_COL_MAJOR") return Ops<UpperEngine<COL_MAJOR> >::run(w);
  return "bad-op";
}

int main() {
  Stack* stack = new Stack();
  std::string line;
  long count = 0;
  while (std::getline(std::cin, line)) {
    std::vector<std::string> w = verif::words(line);
    if (w.empty()) continue;
    std::string out;
    try { out = dispatch(w); }
    catch (const std::exception& ex) { out = std::string("exception:") + ex.what(); }
    std::cout << out << "\n";
    if (++count % 64 == 0) stack->new_recording();   // active element writes record statements; keep the tape small
  }
  delete stack;
  return 0;
}
