// Correspondence driver for the special-matrix engines (model AdeptModel/Special.lean, property C17).
// usage: drv_special < ops            one result line per op; every op is self-contained:
//
//   <op> <engine> <L> <U> <n> [args]
//     engine : SquareEngine_ROW_MAJOR | SquareEngine_COL_MAJOR | BandEngine_ROW_MAJOR | BandEngine_COL_MAJOR |
//              SymmEngine_ROW_LOWER_COL_UPPER | SymmEngine_ROW_UPPER_COL_LOWER | LowerEngine_{ROW,COL}_MAJOR |
//              UpperEngine_{ROW,COL}_MAJOR;  L U = band widths (0 0 for the others); band shapes of the fixed list only
//     The matrix M (engine, n x n) owns fresh storage whose raw element k holds k+1 (so a value read names the raw
//     element it came from, 0 = structural zero); N is a second matrix of the same type with raw element k = 1001+k;
//     targets of assignments are pre-filled with -1 in every raw element.
//   caps                 lvalue=<0|1>     does `M(i,j) = x` compile for a passive matrix of this engine
//   info                 offset=<offset()> size=<data_range length> contiguous=<is_contiguous()>
//   get                  const M(i,j) for all (i,j), row by row
//   ptr p|a              &M(i,j) - M.data() (passive / active matrix), `z` where index_out_of_bounds is thrown
//   wr p|a i j           M(i,j) = 1000; then every changed (i',j') of the dense view and every changed raw element
//   dense                Matrix D(M)
//   fromdense s|a        S = D with D(i,j) = 100*min(i,j)+max(i,j)+1 (s) or 100*i+j+1 (a): raw elements and dense view of S
//   scalar               S = 5.0: raw elements and dense view
//   T                    Matrix(M.T()), const reads of M.T(), Matrix(M.T().T())
//   diag k               elements of M.diag_vector(k) (`oob` if it throws)
//   wrdiag k t           M.diag_vector(k)(t) = 1000: changes as for wr
//   sub a b              X = M.submatrix_on_diagonal(a,b): const reads of X, Matrix(X), Matrix(X.T())  (`oob` if it throws)
//   expr                 Matrix R = M*2.0 + N
//   exprT                Matrix R = M*2.0 + N.T()
//   assign               S = M*2.0 + N     (S of the same type): raw elements and dense view
//   assignT              S = M*2.0 + N.T()
//   compositions: X = M.submatrix_on_diagonal(a,b) (a view with offset() > pack_offset(dimension())), then
//   sinfo a b            offset=<X.offset()> size=<X data_range length> contiguous=<X.is_contiguous()>
//   sdiag a b k          elements of X.diag_vector(k)            (`oob` if anything throws index_out_of_bounds)
//   sTdiag a b k         elements of X.T().diag_vector(k)
//   swrdiag a b k t      X.diag_vector(k)(t) = 1000: changed (i,j) of the dense view of M and changed raw elements of M
//   swr a b p|a i j      X(i,j) = 1000 (passive / active lvalue): changes of M as for wr
//   sT a b               Matrix(X.T()), const reads of X.T(), Matrix(X.T().T())
//   ssub a b a2 b2       Y = X.submatrix_on_diagonal(a2,b2): const reads of Y, Matrix(Y), Matrix(Y.T())
//   sassign a b          S.submatrix_on_diagonal(a,b) = M.submatrix_on_diagonal(a,b)*2.0 + N.submatrix_on_diagonal(a,b).T()
//                        (S of the same type, every raw element -1 before): raw elements and dense view of S
//   self-referential statements (the right-hand side reads the storage of the target).  Result:
//     alias=<rhs.is_aliased(target.data_range)> raw=<raw elements of M> view=<dense view of M> dense=<D afterwards>
//   where D = Matrix(M) and the same statement was executed on D; `oob` / `mismatch` if the library throws
//   index_out_of_bounds / size_mismatch.
//   selfsub a b c d f    M.submatrix_on_diagonal(a,b) = F(M.submatrix_on_diagonal(c,d)) with F(X) =
//                        k2: 2.0*X   cp: X   sum: 2.0*X + X   T: X.T()   mixT: 2.0*X + X.T()
//                        dense: D(range(a,b),range(a,b)) = F(D(range(c,d),range(c,d)))
//   selfT                M = M.T()                 dense: D = D.T()
//   selfexpr             M = 2.0*M + M             dense: D = 2.0*D + D
//   selfdiag k k2 f      M.diag_vector(k) = F(M.diag_vector(k2)) with F(w) =
//                        k2: 2.0*w   cp: w   sum: 2.0*w + w   rev: 2.0*w(stride(len-1,0,-1))
//                        dense: D.diag_vector(k) = F(D.diag_vector(k2))
//   compound operators (all eight; `M OP= rhs` is `M = noalias(M) OP rhs` in SpecialMatrix.h):
//   cmp tv a b op form src c d
//                        V = M.submatrix_on_diagonal(a,b) (tv = v) or M.submatrix_on_diagonal(a,b).T() (tv = t, an lvalue of the
//                        transposed engine on M's storage); op = add | sub | mul | div for += -= *= /=;
//                        form = c : V OP= 2.0 (scalar operators)           D : V OP= Dn (dense Matrix)
//                               cp: V OP= Y     k2: V OP= 2.0*Y     T: V OP= Y.T()     mixT: V OP= 2.0*Y + Y.T()
//                        with Y = S.submatrix_on_diagonal(c,d) (tv = v) or its .T() (tv = t), S = M (src = m: the right-hand
//                        side reads the target's own storage) or the second matrix N (src = n); src c d are `- 0 0` for c, D.
//                        Raw fills: M k+1, N 1001+k, Dn(i,j) = 100*i+j+1; for op = div: M 8*(k+1), N {1,2,4}[k%3],
//                        Dn(i,j) = {1,2,4}[(i+2j)%3].
//                        Result: alias=<rhs.is_aliased(V.data_range)> raw=<raw M> view=<dense view of M>
//                        (`oob` / `mismatch` if the library throws index_out_of_bounds / size_mismatch)
//   active special matrices, statement executed while recording; A (raw k+1) and B (raw 1001+k) are ACTIVE matrices of the
//   engine in two Storage objects, x an active scalar (7.0):
//   act tv a b kind      AV = A.submatrix_on_diagonal(a,b) (tv = v) or its .T() (tv = t); BV the same view of B;
//                        kind = x : AV = x      c : AV = 5.0      cp: AV = BV      k2: AV = 2.0*BV      T: AV = BV.T()
//                               mixT: AV = 2.0*BV + BV.T()
//                        Result: raw=<raw A> view=<dense view of A> tape=<statements recorded by the assignment>, each statement
//                        `a<k>:<m>*<g>+<m>*<g>...` — left-hand side = raw element k of A's storage (gradient index relative
//                        to A.gradient_index()), operations multiplier * (x | a<k> | b<k>), statements separated by `;`
//   dmat s               (BandEngine_ROW_MAJOR 0 0 only) D = v.diag_matrix() for the n-element view v of stride s of a
//                        vector holding 1,2,3,...: offset(), const reads of D, Matrix(D), Matrix(D.T())
#include "drv_special_ops.h"

static std::string run_dmat(const std::vector<std::string>& w) {
  if (w.size() != 6) return "bad-op";
  Index n = atoi(w[4].c_str()), s = atoi(w[5].c_str());
  if (n < 1 || n > 64 || s < 1 || s > 8) return "bad-op";
  Vector big(n * s);
  for (Index k = 0; k < n * s; ++k) big(k) = k + 1;
  Vector v = big(stride(0, n * s - 1, s));
  if (v.size() != n) return "bad-op";
  DiagMatrix D0 = v.diag_matrix();
  const DiagMatrix D(D0);
  Matrix C(D);
  Matrix Ct(D0.T());
  std::ostringstream os;
  os << "offset=" << D.offset() << " get=" << list(view(D)) << " conv=" << mat(C) << " convT=" << mat(Ct);
  return os.str();
}

std::string verif_special_group_1(const std::vector<std::string>& w);
std::string verif_special_group_2(const std::vector<std::string>& w);
std::string verif_special_group_3(const std::vector<std::string>& w);
std::string verif_special_group_4(const std::vector<std::string>& w);
std::string verif_special_group_5(const std::vector<std::string>& w);
std::string verif_special_group_6(const std::vector<std::string>& w);
std::string verif_special_group_7(const std::vector<std::string>& w);
std::string verif_special_group_8(const std::vector<std::string>& w);
std::string verif_special_group_9(const std::vector<std::string>& w);
std::string verif_special_group_10(const std::vector<std::string>& w);
std::string verif_special_group_11(const std::vector<std::string>& w);
std::string verif_special_group_12(const std::vector<std::string>& w);

verif::SpyStack* g_stack = 0;

static std::string dispatch(const std::vector<std::string>& w) {
  if (w.size() < 5) return "bad-op";
  const std::string& e = w[1];
  int L = atoi(w[2].c_str()), U = atoi(w[3].c_str());
  if (w[0] == "dmat") return (e == "BandEngine_ROW_MAJOR" && L == 0 && U == 0) ? run_dmat(w) : std::string("bad-op");
  typedef std::string (*GroupFn)(const std::vector<std::string>&);
  static const GroupFn groups[12] = {verif_special_group_1, verif_special_group_2, verif_special_group_3, verif_special_group_4,
                                     verif_special_group_5, verif_special_group_6, verif_special_group_7, verif_special_group_8,
                                     verif_special_group_9, verif_special_group_10, verif_special_group_11, verif_special_group_12};
  bool band = e.compare(0, 10, "BandEngine") == 0;
  if (!band && (L != 0 || U != 0)) return "bad-op";
  for (int g = band ? 4 : 0; g < (band ? 12 : 4); ++g) {
    std::string r = groups[g](w);
    if (!r.empty()) return r;
  }
  return "bad-op";
}

int main() {
  verif::SpyStack* stack = new verif::SpyStack();
  g_stack = stack;
  std::string line;
  long count = 0;
  while (std::getline(std::cin, line)) {
    std::vector<std::string> w = verif::words(line);
    if (w.empty()) continue;
    std::string out;
    try { out = dispatch(w); }
    catch (const std::exception& ex) { out = std::string("exception:") + ex.what(); }
    std::cout << out << "\n";
    if (++count % 64 == 0) stack->new_recording();   // active element writes record statements; keep the tape small
  }
  delete stack;
  return 0;
}
