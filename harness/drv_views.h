// Shared part of the views driver (see drv_views.cpp).  One translation unit per rank (group)
// instantiates V<R>; the others only see the declarations of wrap()/make_parent_R().
#ifndef VERIF_DRV_VIEWS_H
#define VERIF_DRV_VIEWS_H
#include "spy.h"
#include <cstdlib>
using namespace adept;

typedef decltype(adept::end - 1) EndX;
inline EndX endx(int k) { return adept::end - k; }

struct Tok { bool from_end; int k; };           // k, or end - k
struct Arg { int kind; Tok b, e; int s; };      // kind 0 scalar, 1 range, 2 stride, 3 all

inline bool parse_int(const std::string& t, int& v) {
  if (t.empty()) return false;
  char* endp = 0;
  long x = strtol(t.c_str(), &endp, 10);
  if (*endp != 0) return false;
  v = (int)x;
  return true;
}
inline bool parse_tok(const std::string& t, Tok& o) {
  if (!t.empty() && t[0] == 'e') { o.from_end = true; return parse_int(t.substr(1), o.k); }
  o.from_end = false;
  return parse_int(t, o.k);
}
inline std::vector<std::string> split(const std::string& s, char c) {
  std::vector<std::string> out; std::string cur;
  for (size_t i = 0; i < s.size(); ++i) { if (s[i] == c) { out.push_back(cur); cur.clear(); } else cur += s[i]; }
  out.push_back(cur);
  return out;
}
inline bool parse_arg(const std::string& t, Arg& a) {
  a.s = 1;
  if (t == "_") { a.kind = 3; return true; }
  if (t.size() < 3 || t[1] != ':') return false;
  std::vector<std::string> p = split(t.substr(2), ',');
  if (t[0] == 'i' && p.size() == 1) { a.kind = 0; return parse_tok(p[0], a.b); }
  if (t[0] == 'r' && p.size() == 2) { a.kind = 1; return parse_tok(p[0], a.b) && parse_tok(p[1], a.e); }
  if (t[0] == 's' && p.size() == 3) { a.kind = 2; return parse_tok(p[0], a.b) && parse_tok(p[1], a.e) && parse_int(p[2], a.s); }
  return false;
}

// ------------------------------------------------------------------ the parent allocation
extern int* g_pdata;
extern long g_vol;

struct BadOp {};

struct VBase {
  virtual ~VBase() {}
  virtual int rank() const = 0;
  virtual std::string describe() = 0;
  virtual VBase* apply(const std::vector<std::string>& w) = 0;
  virtual int contig() = 0;
  virtual std::string indexed(const std::vector<std::string>& w) = 0;   // `ix ...`: see drv_views_idx.h
};

inline std::string dump_changes() {
  std::ostringstream os;
  bool first = true;
  for (long c = 0; c < g_vol; ++c)
    if (g_pdata[c] != c) {
      if (!first) os << ";";
      first = false;
      os << c << ":" << g_pdata[c];
      g_pdata[c] = (int)c;
    }
  return os.str();
}

inline int& elem(Array<1,int>& a, const int* i) { return a(i[0]); }
inline int& elem(Array<2,int>& a, const int* i) { return a(i[0], i[1]); }
inline int& elem(Array<3,int>& a, const int* i) { return a(i[0], i[1], i[2]); }
inline int& elem(Array<4,int>& a, const int* i) { return a(i[0], i[1], i[2], i[3]); }
inline int& elem(Array<5,int>& a, const int* i) { return a(i[0], i[1], i[2], i[3], i[4]); }

// defined in the translation unit that instantiates V<R> (rank 0: drv_views.cpp)
VBase* wrap(int& r);
VBase* wrap(const Array<1,int>& a);
VBase* wrap(const Array<2,int>& a);
VBase* wrap(const Array<3,int>& a);
VBase* wrap(const Array<4,int>& a);
VBase* wrap(const Array<5,int>& a);

// integer-vector indexing (IndexedArray): defined in drv_views_idx*.cpp, ranks 1..4
std::string ix_op(Array<1,int>& a, const std::vector<std::string>& w);
std::string ix_op(Array<2,int>& a, const std::vector<std::string>& w);
std::string ix_op(Array<3,int>& a, const std::vector<std::string>& w);
std::string ix_op(Array<4,int>& a, const std::vector<std::string>& w);
inline std::string ix_op(Array<5,int>&, const std::vector<std::string>&) { throw BadOp(); }

// ------------------------------------------------------------------ operator()(...) dispatch
enum { FAM_MIX = 0, FAM_INT = 1, FAM_END = 2 };

typedef internal::RangeIndex<int,int,int> RII;
typedef internal::RangeIndex<int,EndX,int> RIE;
typedef internal::RangeIndex<EndX,int,int> REI;
typedef internal::RangeIndex<EndX,EndX,int> REE;
// an int k expressed through `end`: end - (len-1-k)
inline EndX via_end(const Tok& t, int len) { return t.from_end ? endx(t.k) : endx(len - 1 - t.k); }

template <int Fam> struct Step;
template <int R, int K, int Fam, typename... As> struct SliceDisp {
  static VBase* go(Array<R,int>& a, const std::vector<Arg>& t, As... as) {
    return Step<Fam>::template go<R, K, As...>(a, t, as...);
  }
};
template <int R, int Fam, typename... As> struct SliceDisp<R, R, Fam, As...> {
  static VBase* go(Array<R,int>& a, const std::vector<Arg>&, As... as) { return wrap(a(as...)); }
};
#define NEXT(T, val) SliceDisp<R, K + 1, FAM, As..., T>::go(a, t, as..., val)
template <> struct Step<FAM_INT> {
  enum { FAM = FAM_INT };
  template <int R, int K, typename... As> static VBase* go(Array<R,int>& a, const std::vector<Arg>& t, As... as) {
    const Arg& x = t[K];
    if (x.kind == 3) return NEXT(internal::AllIndex, __);
    if (x.kind == 0) return NEXT(int, x.b.k);
    if (x.kind == 1) return NEXT(RII, range(x.b.k, x.e.k));
    return NEXT(RII, stride(x.b.k, x.e.k, x.s));
  }
};
template <> struct Step<FAM_END> {
  enum { FAM = FAM_END };
  template <int R, int K, typename... As> static VBase* go(Array<R,int>& a, const std::vector<Arg>& t, As... as) {
    const Arg& x = t[K];
    int len = a.dimension(K);
    if (x.kind == 3) return NEXT(internal::AllIndex, __);
    if (x.kind == 0) return NEXT(EndX, via_end(x.b, len));
    if (x.kind == 1) return NEXT(REE, range(via_end(x.b, len), via_end(x.e, len)));
    return NEXT(REE, stride(via_end(x.b, len), via_end(x.e, len), x.s));
  }
};
template <> struct Step<FAM_MIX> {
  enum { FAM = FAM_MIX };
  template <int R, int K, typename... As> static VBase* go(Array<R,int>& a, const std::vector<Arg>& t, As... as) {
    const Arg& x = t[K];
    if (x.kind == 3) return NEXT(internal::AllIndex, __);
    if (x.kind == 0) {
      if (!x.b.from_end) return NEXT(int, x.b.k);
      return NEXT(EndX, endx(x.b.k));
    }
    bool rng = (x.kind == 1);
    if (!x.b.from_end && !x.e.from_end) return NEXT(RII, rng ? range(x.b.k, x.e.k) : stride(x.b.k, x.e.k, x.s));
    if (!x.b.from_end) return NEXT(RIE, rng ? range(x.b.k, endx(x.e.k)) : stride(x.b.k, endx(x.e.k), x.s));
    if (!x.e.from_end) return NEXT(REI, rng ? range(endx(x.b.k), x.e.k) : stride(endx(x.b.k), x.e.k, x.s));
    return NEXT(REE, rng ? range(endx(x.b.k), endx(x.e.k)) : stride(endx(x.b.k), endx(x.e.k), x.s));
  }
};
#undef NEXT

template <int R, bool Small = (R <= 2)> struct DoSlice {   // ranks 1-2: every mixture of argument types
  static VBase* go(Array<R,int>& a, const std::vector<Arg>& t) { return SliceDisp<R, 0, FAM_MIX>::go(a, t); }
};
template <int R> struct DoSlice<R, false> {                // ranks 3-5: one family per call
  static VBase* go(Array<R,int>& a, const std::vector<Arg>& t) {
    bool any_end = false;
    for (size_t i = 0; i < t.size(); ++i)
      if (t[i].kind != 3 && (t[i].b.from_end || (t[i].kind != 0 && t[i].e.from_end))) any_end = true;
    if (any_end) return SliceDisp<R, 0, FAM_END>::go(a, t);
    return SliceDisp<R, 0, FAM_INT>::go(a, t);
  }
};
// the two argument families of rank 5 are compiled in separate translation units
VBase* slice5_int(Array<5,int>& a, const std::vector<Arg>& t);
VBase* slice5_end(Array<5,int>& a, const std::vector<Arg>& t);
template <> struct DoSlice<5, false> {
  static VBase* go(Array<5,int>& a, const std::vector<Arg>& t) {
    bool any_end = false;
    for (size_t i = 0; i < t.size(); ++i)
      if (t[i].kind != 3 && (t[i].b.from_end || (t[i].kind != 0 && t[i].e.from_end))) any_end = true;
    return any_end ? slice5_end(a, t) : slice5_int(a, t);
  }
};
template <int R> inline VBase* do_slice(Array<R,int>& a, const std::vector<Arg>& t) { return DoSlice<R>::go(a, t); }

// ------------------------------------------------------------------ subset(b0,e0,...)
template <typename T> inline T cv(const Tok& t, int len);
template <> inline int cv<int>(const Tok& t, int) { return t.k; }
template <> inline EndX cv<EndX>(const Tok& t, int len) { return t.from_end ? endx(t.k) : endx(len - 1 - t.k); }
#define BE(j) cv<T>(t[2*j], a.dimension(j)), cv<T>(t[2*j+1], a.dimension(j))
template <typename T> inline VBase* subset_t(Array<1,int>& a, const std::vector<Tok>& t) { return wrap(a.subset(BE(0))); }
template <typename T> inline VBase* subset_t(Array<2,int>& a, const std::vector<Tok>& t) { return wrap(a.subset(BE(0), BE(1))); }
template <typename T> inline VBase* subset_t(Array<3,int>& a, const std::vector<Tok>& t) { return wrap(a.subset(BE(0), BE(1), BE(2))); }
template <typename T> inline VBase* subset_t(Array<4,int>& a, const std::vector<Tok>& t) { return wrap(a.subset(BE(0), BE(1), BE(2), BE(3))); }
template <typename T> inline VBase* subset_t(Array<5,int>& a, const std::vector<Tok>& t) { return wrap(a.subset(BE(0), BE(1), BE(2), BE(3), BE(4))); }
#undef BE

// ------------------------------------------------------------------ rank-specific members
template <int R> struct RankOps {   // R >= 3
  static VBase* idx(Array<R,int>& a, const Tok& t) { return t.from_end ? wrap(a[endx(t.k)]) : wrap(a[t.k]); }
  static VBase* T(Array<R,int>&) { throw BadOp(); }
  static VBase* diag(Array<R,int>&, int) { throw BadOp(); }
  static VBase* subdiag(Array<R,int>&, int, int) { throw BadOp(); }
  static VBase* reshape(Array<R,int>&, const std::vector<int>&) { throw BadOp(); }
};
template <> struct RankOps<2> {
  static VBase* idx(Array<2,int>& a, const Tok& t) { return t.from_end ? wrap(a[endx(t.k)]) : wrap(a[t.k]); }
  static VBase* T(Array<2,int>& a) { return wrap(a.T()); }
  static VBase* diag(Array<2,int>& a, int k) {
    Array<1,int> d = a.diag_vector(k);
    if (!d.data()) return 0;   // default-constructed (empty) vector
    return wrap(d);
  }
  static VBase* subdiag(Array<2,int>& a, int b, int e) { return wrap(a.submatrix_on_diagonal(b, e)); }
  static VBase* reshape(Array<2,int>&, const std::vector<int>&) { throw BadOp(); }
};
template <> struct RankOps<1> {
  static VBase* idx(Array<1,int>& a, const Tok& t) { return t.from_end ? wrap(a[endx(t.k)]) : wrap(a[t.k]); }
  static VBase* T(Array<1,int>&) { throw BadOp(); }
  static VBase* diag(Array<1,int>&, int) { throw BadOp(); }
  static VBase* subdiag(Array<1,int>&, int, int) { throw BadOp(); }
  static VBase* reshape(Array<1,int>& a, const std::vector<int>& d) {
    switch (d.size()) {
      case 1: return wrap(a.reshape(ExpressionSize<1>(d[0])));
      case 2: return wrap(a.reshape(d[0], d[1]));
      case 3: return wrap(a.reshape(ExpressionSize<3>(d[0], d[1], d[2])));
      case 4: return wrap(a.reshape(ExpressionSize<4>(d[0], d[1], d[2], d[3])));
      case 5: return wrap(a.reshape(ExpressionSize<5>(d[0], d[1], d[2], d[3], d[4])));
      default: throw BadOp();
    }
  }
};

template <int R> struct V : VBase {
  Array<R,int> a;
  explicit V(const Array<R,int>& x) : a(x) {}   // copy constructor: links, no copy
  int rank() const { return R; }
  int contig() { return a.is_contiguous() ? 1 : 0; }
  std::string indexed(const std::vector<std::string>& w) { return ix_op(a, w); }
  std::string describe() {
    std::ostringstream os;
    os << "ok r=" << R << " d=";
    for (int k = 0; k < R; ++k) os << (k ? "," : "") << a.dimension(k);
    os << " s=";
    for (int k = 0; k < R; ++k) os << (k ? "," : "") << a.offset(k);
    os << " o=" << (a.data() - g_pdata) << " e=";
    bool none = false;
    for (int k = 0; k < R; ++k) if (a.dimension(k) <= 0) none = true;
    int ix[R];
    long j = 0;
    if (!none) {
      for (int k = 0; k < R; ++k) ix[k] = 0;
      for (;;) {
        os << (j ? "," : "") << elem(a, ix);
        ++j;
        int k = R - 1;
        while (k >= 0 && ++ix[k] == a.dimension(k)) { ix[k] = 0; --k; }
        if (k < 0) break;
      }
      for (int k = 0; k < R; ++k) ix[k] = 0;
      j = 0;
      for (;;) {
        ++j;
        elem(a, ix) = (int)(-j);
        int k = R - 1;
        while (k >= 0 && ++ix[k] == a.dimension(k)) { ix[k] = 0; --k; }
        if (k < 0) break;
      }
    }
    os << " w=" << dump_changes();
    return os.str();
  }
  VBase* apply(const std::vector<std::string>& w) {
    const std::string& op = w[0];
    if (op == "slice") {
      if ((int)w.size() != R + 1) throw BadOp();
      std::vector<Arg> t(R);
      for (int k = 0; k < R; ++k) if (!parse_arg(w[k + 1], t[k])) throw BadOp();
      return do_slice<R>(a, t);
    }
    if (op == "subset") {
      if ((int)w.size() != 2 * R + 1) throw BadOp();
      std::vector<Tok> t(2 * R);
      bool any_end = false;
      for (int k = 0; k < 2 * R; ++k) { if (!parse_tok(w[k + 1], t[k])) throw BadOp(); any_end = any_end || t[k].from_end; }
      return any_end ? subset_t<EndX>(a, t) : subset_t<int>(a, t);
    }
    if (op == "idx") {
      Tok t;
      if (w.size() != 2 || !parse_tok(w[1], t)) throw BadOp();
      return RankOps<R>::idx(a, t);
    }
    if (op == "T" && w.size() == 1) return RankOps<R>::T(a);
    if (op == "permute") {
      if ((int)w.size() != R + 1) throw BadOp();
      int p[R];
      for (int k = 0; k < R; ++k) if (!parse_int(w[k + 1], p[k])) throw BadOp();
      return wrap(a.permute(p));
    }
    if (op == "diag") {
      int k;
      if (w.size() != 2 || !parse_int(w[1], k)) throw BadOp();
      return RankOps<R>::diag(a, k);
    }
    if (op == "subdiag") {
      int b, e;
      if (w.size() != 3 || !parse_int(w[1], b) || !parse_int(w[2], e)) throw BadOp();
      return RankOps<R>::subdiag(a, b, e);
    }
    if (op == "reshape") {
      std::vector<int> d(w.size() - 1);
      if (d.empty() || d.size() > 5) throw BadOp();
      for (size_t k = 0; k < d.size(); ++k) if (!parse_int(w[k + 1], d[k])) throw BadOp();
      return RankOps<R>::reshape(a, d);
    }
    if (op == "softlink" && w.size() == 1) return wrap(a.soft_link());
    throw BadOp();
  }
};

// ------------------------------------------------------------------ parents
template <int R> inline VBase* make_parent(const std::vector<int>& d, Array<R,int>*& keep) {
  ExpressionSize<R> dims;
  for (int k = 0; k < R; ++k) dims[k] = d[k];
  keep = new Array<R,int>(dims);
  g_pdata = keep->data();
  g_vol = 1;
  for (int k = 0; k < R; ++k) g_vol *= d[k];
  for (long c = 0; c < g_vol; ++c) g_pdata[c] = (int)c;
  return new V<R>(*keep);
}

// one per rank, defined next to V<R>
VBase* make_parent_1(const std::vector<int>& d, Array<1,int>*& keep);
VBase* make_parent_2(const std::vector<int>& d, Array<2,int>*& keep);
VBase* make_parent_3(const std::vector<int>& d, Array<3,int>*& keep);
VBase* make_parent_4(const std::vector<int>& d, Array<4,int>*& keep);
VBase* make_parent_5(const std::vector<int>& d, Array<5,int>*& keep);
#define VIEWS_DEFINE_RANK(R) \
  VBase* wrap(const Array<R,int>& a) { return new V<R>(a); } \
  VBase* make_parent_##R(const std::vector<int>& d, Array<R,int>*& keep) { return make_parent<R>(d, keep); }
#endif
