// Shared part of the views driver (see drv_views.cpp).  One translation unit per rank (group)
// instantiates V<AR>; the others only see the declarations of wrap()/make_parent_R().
#ifndef VERIF_DRV_VIEWS_H
#define VERIF_DRV_VIEWS_H
#include "spy.h"
#include <cstdlib>
#include <type_traits>
using namespace adept;

typedef decltype(adept::end - 1) EndX;
inline EndX endx(int k) { return adept::end - k; }

struct BadOp {};

// ------------------------------------------------------------------ index expressions
// E = k | eK (end - K) | end | (E op E)   op = + - * / > (max) < (min)
// An expression other than k / eK is a "rich" expression: its C++ type depends on its shape (the text with
// every integer replaced by #), so only the shapes of the menu below exist in the harness; the integers come
// from the stream.  The first XMENU3 shapes are compiled for views of rank 3..6, the first XMENU2 for rank-2 views
// (and for `ix`), all of them for rank-1 views.
#define XS_0 "(#-end)"
#define XE_0(K) ((K)[0] - adept::end)                       // BinaryOpScalarLeft<Subtract>
#define XS_1 "(end/#)"
#define XE_1(K) (adept::end / (K)[0])                       // BinaryOpScalarRight<Divide>
#define XS_2 "(#/end)"
#define XE_2(K) ((K)[0] / adept::end)                       // BinaryOpScalarLeft<Divide>
#define XS_3 "((end-#)/#)"
#define XE_3(K) ((adept::end - (K)[0]) / (K)[1])            // nested ScalarRight
#define XS_4 "end"
#define XE_4(K) (adept::end)                                // EndIndex itself
#define XS_5 "(#+end)"
#define XE_5(K) ((K)[0] + adept::end)                       // BinaryOpScalarLeft<Add>
#define XS_6 "(#*end)"
#define XE_6(K) ((K)[0] * adept::end)                       // BinaryOpScalarLeft<Multiply>
#define XS_7 "(end-(end/#))"
#define XE_7(K) (adept::end - (adept::end / (K)[0]))        // BinaryOperation<Subtract> of two expressions
#define XS_8 "(end+#)"
#define XE_8(K) (adept::end + (K)[0])                       // BinaryOpScalarRight<Add>
#define XS_9 "(end*#)"
#define XE_9(K) (adept::end * (K)[0])                       // BinaryOpScalarRight<Multiply>
#define XS_10 "(#-(end/#))"
#define XE_10(K) ((K)[0] - (adept::end / (K)[1]))
#define XS_11 "((#*end)-#)"
#define XE_11(K) (((K)[0] * adept::end) - (K)[1])
#define XS_12 "((#-end)*#)"
#define XE_12(K) (((K)[0] - adept::end) * (K)[1])
#define XS_13 "(#/(end-#))"
#define XE_13(K) ((K)[0] / (adept::end - (K)[1]))
#define XS_14 "(#-(#-end))"
#define XE_14(K) ((K)[0] - ((K)[1] - adept::end))
#define XS_15 "((end-#)>#)"
#define XE_15(K) (adept::max(adept::end - (K)[0], (K)[1]))  // BinaryOpScalarRight<Max>
#define XS_16 "(#<end)"
#define XE_16(K) (adept::min((K)[0], adept::end))           // BinaryOpScalarLeft<Min>
#define XS_17 "((end*end)/#)"
#define XE_17(K) ((adept::end * adept::end) / (K)[0])
#define XS_18 "((end/#)+(end/#))"
#define XE_18(K) ((adept::end / (K)[0]) + (adept::end / (K)[1]))
#define XSHAPES(X) X(0) X(1) X(2) X(3) X(4) X(5) X(6) X(7) X(8) X(9) X(10) X(11) X(12) X(13) X(14) X(15) X(16) X(17) X(18)
#define XSHAPES2(X) X(0) X(1) X(2) X(3) X(4) X(5) X(6) X(7)
enum { XMENU1 = 19, XMENU2 = 8, XMENU3 = 4 };
inline const char* const* xshape_table() {
#define X(ID) XS_##ID,
  static const char* const t[] = { XSHAPES(X) 0 };
#undef X
  return t;
}

struct Tok { int cls; int k; int shape; int c[3]; };        // cls 0: k   1: end - k   2: rich (shape, constants c)
struct Arg { int kind; Tok b, e, s; };                      // kind 0 scalar (b), 1 range (b,e), 2 stride (b,e,s), 3 all
struct Call { std::vector<Arg> t; int xpos; bool cf; };     // xpos: the argument holding rich expressions (-1: none); cf: const overload

inline bool parse_int(const std::string& t, int& v) {
  if (t.empty()) return false;
  char* endp = 0;
  long x = strtol(t.c_str(), &endp, 10);
  if (*endp != 0) return false;
  v = (int)x;
  return true;
}
// operand := INT | end | v | ( operand OP operand ): appends the shape text and the integers
inline bool px_parse(const char*& p, std::string& shape, std::vector<int>& consts, int depth) {
  if (depth > 12) return false;
  if (*p == '(') {
    ++p; shape += '(';
    if (!px_parse(p, shape, consts, depth + 1)) return false;
    if (!*p || !strchr("+-*/<>", *p)) return false;
    shape += *p; ++p;
    if (!px_parse(p, shape, consts, depth + 1)) return false;
    if (*p != ')') return false;
    ++p; shape += ')';
    return true;
  }
  if (p[0] == 'e' && p[1] == 'n' && p[2] == 'd') { p += 3; shape += "end"; return true; }
  if (*p == 'v') { ++p; shape += 'v'; return true; }
  const char* q = p;
  if (*q == '-') ++q;
  if (!(*q >= '0' && *q <= '9')) return false;
  while (*q >= '0' && *q <= '9') ++q;
  int v;
  if (!parse_int(std::string(p, q), v)) return false;
  consts.push_back(v); shape += '#'; p = q;
  return true;
}
inline bool parse_shape(const std::string& t, std::string& shape, std::vector<int>& consts) {
  const char* p = t.c_str();
  shape.clear(); consts.clear();
  return px_parse(p, shape, consts, 0) && *p == 0;
}
// false: malformed; throws BadOp for a well-formed expression whose shape is not compiled
inline bool parse_tok(const std::string& t, Tok& o) {
  o.cls = 0; o.k = 0; o.shape = -1; o.c[0] = o.c[1] = o.c[2] = 0;
  if (!t.empty() && (t[0] == '(' || t == "end")) {
    std::string shape; std::vector<int> consts;
    if (!parse_shape(t, shape, consts) || consts.size() > 3) return false;
    if (shape == "(end-#)") { o.cls = 1; o.k = consts[0]; return true; }
    const char* const* tab = xshape_table();
    for (int id = 0; tab[id]; ++id)
      if (shape == tab[id]) {
        o.cls = 2; o.shape = id;
        for (size_t j = 0; j < consts.size(); ++j) o.c[j] = consts[j];
        return true;
      }
    throw BadOp();
  }
  if (!t.empty() && t[0] == 'e') { o.cls = 1; return parse_int(t.substr(1), o.k); }
  return parse_int(t, o.k);
}
inline std::vector<std::string> split(const std::string& s, char c) {
  std::vector<std::string> out; std::string cur;
  for (size_t i = 0; i < s.size(); ++i) { if (s[i] == c) { out.push_back(cur); cur.clear(); } else cur += s[i]; }
  out.push_back(cur);
  return out;
}
inline bool parse_arg(const std::string& t, Arg& a) {
  a.s.cls = 0; a.s.k = 1; a.s.shape = -1;
  if (t == "_") { a.kind = 3; return true; }
  if (t.size() < 3 || t[1] != ':') return false;
  std::vector<std::string> p = split(t.substr(2), ',');
  if (t[0] == 'i' && p.size() == 1) { a.kind = 0; return parse_tok(p[0], a.b); }
  if (t[0] == 'r' && p.size() == 2) { a.kind = 1; return parse_tok(p[0], a.b) && parse_tok(p[1], a.e); }
  if (t[0] == 's' && p.size() == 3) {
    a.kind = 2;
    return parse_tok(p[0], a.b) && parse_tok(p[1], a.e) && parse_tok(p[2], a.s) && a.s.cls != 1;
  }
  return false;
}
inline bool arg_rich(const Arg& a) {
  if (a.kind == 3) return false;
  if (a.kind == 0) return a.b.cls == 2;
  return a.b.cls == 2 || a.e.cls == 2 || a.s.cls == 2;
}
inline bool arg_any_end(const Arg& a) {
  return a.kind != 3 && (a.b.cls == 1 || (a.kind != 0 && a.e.cls == 1));
}

// ------------------------------------------------------------------ the parent allocation
extern int* g_pdata;        // passive parents (Array<r,int>, FixedArray<int,false,...>)
extern double* g_adata;     // active parents (Array<r,double,true>)
extern Index g_gbase;       // gradient index of cell 0 of the active parent
extern long g_vol;

inline void set_base(int* p) { g_pdata = p; g_adata = 0; }
inline void set_base(double* p) { g_adata = p; g_pdata = 0; }
template <class T> struct Mem;
template <> struct Mem<int> { static long cell(const int* p) { return p - g_pdata; } };
template <> struct Mem<double> { static long cell(const double* p) { return p - g_adata; } };

struct VBase {
  virtual ~VBase() {}
  virtual int rank() const = 0;
  virtual std::string describe() = 0;
  virtual VBase* apply(const std::vector<std::string>& w) = 0;
  virtual int contig() = 0;
  virtual std::string indexed(const std::vector<std::string>& w) = 0;   // `ix ...`: see drv_views_idx.h
};

inline std::string dump_changes() {
  std::ostringstream os;
  bool first = true;
  for (long c = 0; c < g_vol; ++c) {
    long v = g_pdata ? (long)g_pdata[c] : (long)g_adata[c];
    if (v != c) {
      if (!first) os << ";";
      first = false;
      os << c << ":" << v;
      if (g_pdata) g_pdata[c] = (int)c; else g_adata[c] = (double)c;
    }
  }
  return os.str();
}

// element access with a run-time index list: cc = through the const overload, nc = through the non-const one
template <int R> struct El;
#define VIEWS_EL(R, ARGS) \
  template <> struct El<R> { \
    template <class AR> static auto nc(AR& a, const int* i) -> decltype(a(ARGS)) { return a(ARGS); } \
    template <class AR> static auto cc(const AR& a, const int* i) -> decltype(a(ARGS)) { return a(ARGS); } \
  };
#define VIEWS_C ,
VIEWS_EL(1, i[0])
VIEWS_EL(2, i[0] VIEWS_C i[1])
VIEWS_EL(3, i[0] VIEWS_C i[1] VIEWS_C i[2])
VIEWS_EL(4, i[0] VIEWS_C i[1] VIEWS_C i[2] VIEWS_C i[3])
VIEWS_EL(5, i[0] VIEWS_C i[1] VIEWS_C i[2] VIEWS_C i[3] VIEWS_C i[4])
VIEWS_EL(6, i[0] VIEWS_C i[1] VIEWS_C i[2] VIEWS_C i[3] VIEWS_C i[4] VIEWS_C i[5])
#undef VIEWS_EL
inline long elval(const int& r) { return r; }
inline long elval(const ActiveReference<double>& r) { return (long)r.value(); }
inline long elval(const ActiveConstReference<double>& r) { return (long)r.value(); }

// the kinds of array object that are driven
template <class AR> struct ArT;
template <int R, class T, bool A> struct ArT<Array<R,T,A> > { enum { rank = R, active = A, fixed = 0 }; typedef T elem; };
template <class T, bool A, Index J0, Index J1, Index J2, Index J3, Index J4, Index J5, Index J6>
struct ArT<FixedArray<T,A,J0,J1,J2,J3,J4,J5,J6> > {
  enum { rank = FixedArray<T,A,J0,J1,J2,J3,J4,J5,J6>::rank, active = A, fixed = 1 }; typedef T elem;
};
typedef FixedArray<int,false,4> Fix1;
typedef FixedArray<int,false,3,4> Fix2;
typedef FixedArray<int,false,3,3> Fix2s;
typedef FixedArray<int,false,2,3,4> Fix3;
typedef FixedArray<int,false,2,3,4,5> Fix4;
// FixedArrays driven through their ELEMENT accessors only (drv_views_el.h): pairwise different extents, ranks 4..6,
// and ACTIVE FixedArrays of rank 1..4
typedef FixedArray<int,false,3,2,5,4> EFix4;
typedef FixedArray<int,false,2,3,1,4,5> EFix5;
typedef FixedArray<int,false,3,1,4,2,6,5> EFix6;
typedef FixedArray<double,true,4> AFix1;
typedef FixedArray<double,true,3,4> AFix2;
typedef FixedArray<double,true,2,3,4> AFix3;
typedef FixedArray<double,true,3,2,5,4> AFix4;

// rank 0: the element returned by operator() with only scalar arguments; it is read, and -1 is written through it, at once
struct V0 : VBase {
  std::string line;
  explicit V0(const std::string& l) : line(l) {}
  int rank() const { return 0; }
  std::string describe() { return line; }
  VBase* apply(const std::vector<std::string>&) { throw BadOp(); }
  int contig() { throw BadOp(); }
  std::string indexed(const std::vector<std::string>&) { throw BadOp(); }
};
inline VBase* wrap0(long cell, long val) {
  std::ostringstream os;
  os << "ok r=0 d= s= o=" << cell << " e=" << val << " w=" << dump_changes();
  return new V0(os.str());
}
inline VBase* wrap(int& r) { long c = &r - g_pdata, v = r; r = -1; return wrap0(c, v); }
inline VBase* wrapc(const int& r) { return wrap(const_cast<int&>(r)); }
// active element: located through its gradient index (the reference does not expose the address of the value)
inline VBase* wrap(ActiveReference<double> r) { long c = r.gradient_index() - g_gbase, v = (long)r.value(); r = -1.0; return wrap0(c, v); }
inline VBase* wrapc(const ActiveConstReference<double>& r) {
  long c = r.gradient_index() - g_gbase, v = (long)r.value();
  if (c >= 0 && c < g_vol) g_adata[c] = -1.0;      // (a const reference cannot be assigned to)
  return wrap0(c, v);
}
// defined in the translation unit that instantiates V<AR>
VBase* wrap(const Array<1,int>& a);
VBase* wrap(const Array<2,int>& a);
VBase* wrap(const Array<3,int>& a);
VBase* wrap(const Array<4,int>& a);
VBase* wrap(const Array<5,int>& a);
VBase* wrap(const Array<6,int>& a);
VBase* wrap(const Array<1,double,true>& a);
VBase* wrap(const Array<2,double,true>& a);
VBase* wrap(const Array<3,double,true>& a);
template <int R, class T, bool A> inline VBase* wrapc(const Array<R,T,A>& a) { return wrap(a); }

// whole-view operations (V = c, V += c, B = V, V = B*2+3, sum, maxval, where, count/find): the view exercised through the
// library's own loops; defined in drv_views_w*.cpp (drv_views_w.h)
std::string whole_view_ops(Array<1,int>& a);
std::string whole_view_ops(Array<2,int>& a);
std::string whole_view_ops(Array<3,int>& a);
std::string whole_view_ops(Array<4,int>& a);
std::string whole_view_ops(Array<5,int>& a);
std::string whole_view_ops(Array<6,int>& a);
std::string whole_view_ops(Array<1,double,true>& a);
std::string whole_view_ops(Array<2,double,true>& a);
std::string whole_view_ops(Array<3,double,true>& a);

// integer-vector indexing (IndexedArray): defined in drv_views_idx*.cpp, passive ranks 1..4
std::string ix_op(Array<1,int>& a, const std::vector<std::string>& w);
std::string ix_op(Array<2,int>& a, const std::vector<std::string>& w);
std::string ix_op(Array<3,int>& a, const std::vector<std::string>& w);
std::string ix_op(Array<4,int>& a, const std::vector<std::string>& w);
template <class AR> inline std::string ix_op(AR&, const std::vector<std::string>&) { throw BadOp(); }

// ------------------------------------------------------------------ operator()(...) dispatch
// FAM_MIX: per position int / end-k / the four RangeIndex<B,E,int> with B,E in {int, end-k} / __   (ranks 1-2)
// FAM_INT: int / RangeIndex<int,int,int> / __        FAM_END: end-k / RangeIndex<end-k,end-k,int> / __
//          (an int k is passed as end-(len-1-k)); rank 6: __ in the last position only
// FAM_XT : end-k / __ (the other arguments of a call of rank 3..6 with a rich expression; ranks 4..6: __ in the last
//          position only)
enum { FAM_MIX = 0, FAM_INT = 1, FAM_END = 2, FAM_XT = 3 };

typedef internal::RangeIndex<int,int,int> RII;
typedef internal::RangeIndex<int,EndX,int> RIE;
typedef internal::RangeIndex<EndX,int,int> REI;
typedef internal::RangeIndex<EndX,EndX,int> REE;
// an int k expressed through `end`: end - (len-1-k)
inline EndX via_end(const Tok& t, int len) { return t.cls == 1 ? endx(t.k) : endx(len - 1 - t.k); }

struct NoRich {};
template <bool Ok> struct Terminal {
  template <class AR, typename... As> static VBase* go(AR& a, const Call& c, const As&... as) {
    if (c.cf) return wrapc(static_cast<const AR&>(a)(as...));
    return wrap(a(as...));
  }
};
template <> struct Terminal<false> {
  template <class AR, typename... As> static VBase* go(AR&, const Call&, const As&...) { throw BadOp(); }
};
template <int Fam> struct Step;
template <class AR, int K, int Fam, class XA, bool Used, bool Done, typename... As> struct SliceDisp {
  static VBase* go(AR& a, const Call& c, const XA& x, As... as) {
    return Step<Fam>::template go<AR, K, XA, Used, As...>(a, c, x, as...);
  }
};
template <class AR, int K, int Fam, class XA, bool Used, typename... As> struct SliceDisp<AR, K, Fam, XA, Used, true, As...> {
  static VBase* go(AR& a, const Call& c, const XA&, As... as) {
    return Terminal<(Used || std::is_same<XA, NoRich>::value)>::go(a, c, as...);
  }
};
#define NEXT(T, val) SliceDisp<AR, K + 1, FAM, XA, Used, (K + 1 == ArT<AR>::rank), As..., T>::go(a, c, x, as..., val)
// the rich argument (already built, type XA) is passed at its position
template <class XA, bool Used> struct XStep {
  template <class AR, int K, int FAM, typename... As> static VBase* go(AR& a, const Call& c, const XA& x, As... as) {
    return SliceDisp<AR, K + 1, FAM, XA, true, (K + 1 == ArT<AR>::rank), As..., XA>::go(a, c, x, as..., x);
  }
};
template <class XA> struct XStep<XA, true> {
  template <class AR, int K, int FAM, typename... As> static VBase* go(AR&, const Call&, const XA&, As...) { throw BadOp(); }
};
template <bool Used> struct XStep<NoRich, Used> {
  template <class AR, int K, int FAM, typename... As> static VBase* go(AR&, const Call&, const NoRich&, As...) { throw BadOp(); }
};
template <> struct XStep<NoRich, true> {
  template <class AR, int K, int FAM, typename... As> static VBase* go(AR&, const Call&, const NoRich&, As...) { throw BadOp(); }
};
#define TRYX if (K == c.xpos) return XStep<XA, Used>::template go<AR, K, FAM, As...>(a, c, x, as...)
// `__`: compiled in every position up to rank 5, in the last position only for rank 6
template <bool Ok> struct AllStep {
  template <class AR, int K, int FAM, class XA, bool Used, typename... As> static VBase* go(AR& a, const Call& c, const XA& x, As... as) {
    return NEXT(internal::AllIndex, __);
  }
};
template <> struct AllStep<false> {
  template <class AR, int K, int FAM, class XA, bool Used, typename... As> static VBase* go(AR&, const Call&, const XA&, As...) { throw BadOp(); }
};
#define NEXT_ALL AllStep<(ArT<AR>::rank < 6 || K + 1 == ArT<AR>::rank)>::template go<AR, K, FAM, XA, Used, As...>(a, c, x, as...)
#define NEXT_ALL_XT AllStep<(ArT<AR>::rank < 4 || K + 1 == ArT<AR>::rank)>::template go<AR, K, FAM, XA, Used, As...>(a, c, x, as...)
template <> struct Step<FAM_INT> {
  enum { FAM = FAM_INT };
  template <class AR, int K, class XA, bool Used, typename... As> static VBase* go(AR& a, const Call& c, const XA& x, As... as) {
    const Arg& t = c.t[K];
    if (t.kind == 3) return NEXT_ALL;
    if (t.kind == 0) return NEXT(int, t.b.k);
    return NEXT(RII, stride(t.b.k, t.e.k, t.s.k));
  }
};
template <> struct Step<FAM_END> {
  enum { FAM = FAM_END };
  template <class AR, int K, class XA, bool Used, typename... As> static VBase* go(AR& a, const Call& c, const XA& x, As... as) {
    TRYX;
    const Arg& t = c.t[K];
    int len = a.dimension(K);
    if (t.kind == 3) return NEXT_ALL;
    if (t.kind == 0) return NEXT(EndX, via_end(t.b, len));
    return NEXT(REE, stride(via_end(t.b, len), via_end(t.e, len), t.s.k));
  }
};
template <> struct Step<FAM_XT> {
  enum { FAM = FAM_XT };
  template <class AR, int K, class XA, bool Used, typename... As> static VBase* go(AR& a, const Call& c, const XA& x, As... as) {
    TRYX;
    const Arg& t = c.t[K];
    int len = a.dimension(K);
    if (t.kind == 3) return NEXT_ALL_XT;
    if (t.kind == 0) return NEXT(EndX, via_end(t.b, len));
    throw BadOp();
  }
};
template <> struct Step<FAM_MIX> {
  enum { FAM = FAM_MIX };
  template <class AR, int K, class XA, bool Used, typename... As> static VBase* go(AR& a, const Call& c, const XA& x, As... as) {
    const Arg& t = c.t[K];
    if (t.kind == 3) return NEXT(internal::AllIndex, __);
    if (t.kind == 0) {
      if (t.b.cls == 0) return NEXT(int, t.b.k);
      return NEXT(EndX, endx(t.b.k));
    }
    if (t.b.cls == 0 && t.e.cls == 0) return NEXT(RII, stride(t.b.k, t.e.k, t.s.k));
    if (t.b.cls == 0) return NEXT(RIE, stride(t.b.k, endx(t.e.k), t.s.k));
    if (t.e.cls == 0) return NEXT(REI, stride(endx(t.b.k), t.e.k, t.s.k));
    return NEXT(REE, stride(endx(t.b.k), endx(t.e.k), t.s.k));
  }
};
#undef NEXT
#undef NEXT_ALL
#undef NEXT_ALL_XT
#undef TRYX
template <class AR, int Fam> inline VBase* slice_fam(AR& a, const Call& c) {
  return SliceDisp<AR, 0, Fam, NoRich, false, false>::go(a, c, NoRich());
}
inline bool call_any_end(const Call& c) {
  for (size_t i = 0; i < c.t.size(); ++i) if (arg_any_end(c.t[i])) return true;
  return false;
}
// calls without rich expressions
template <class AR, int Sel = (ArT<AR>::fixed || ArT<AR>::active || ArT<AR>::rank == 3) ? 1 : (ArT<AR>::rank <= 2 ? 0 : ArT<AR>::rank)>
struct DoSlice;                                                  // passive ranks 1-2: every mixture of argument types
template <class AR> struct DoSlice<AR, 0> { static VBase* go(AR& a, const Call& c) { return slice_fam<AR, FAM_MIX>(a, c); } };
template <class AR> struct DoSlice<AR, 1> {                      // passive rank 3, active, FixedArray: one family per call
  static VBase* go(AR& a, const Call& c) { return call_any_end(c) ? slice_fam<AR, FAM_END>(a, c) : slice_fam<AR, FAM_INT>(a, c); }
};
// the two argument families of ranks 4-6 are compiled in separate translation units
VBase* slice_int(Array<4,int>& a, const Call& c);
VBase* slice_end(Array<4,int>& a, const Call& c);
VBase* slice_int(Array<5,int>& a, const Call& c);
VBase* slice_end(Array<5,int>& a, const Call& c);
VBase* slice_int(Array<6,int>& a, const Call& c);
VBase* slice_end(Array<6,int>& a, const Call& c);
template <class AR, int R> struct DoSlice {
  static VBase* go(AR& a, const Call& c) { return call_any_end(c) ? slice_end(a, c) : slice_int(a, c); }
};
// calls with a rich expression: passive Array only; defined in drv_views_x*.cpp
VBase* rich_slice(Array<1,int>& a, const Call& c);
VBase* rich_slice(Array<2,int>& a, const Call& c);
VBase* rich_slice(Array<3,int>& a, const Call& c);
VBase* rich_slice(Array<4,int>& a, const Call& c);
VBase* rich_slice(Array<5,int>& a, const Call& c);
VBase* rich_slice(Array<6,int>& a, const Call& c);
template <class AR> inline VBase* rich_slice(AR&, const Call&) { throw BadOp(); }
VBase* rich_subset(Array<1,int>& a, const std::vector<Tok>& t, bool cf);
VBase* rich_subset(Array<2,int>& a, const std::vector<Tok>& t, bool cf);
template <class AR> inline VBase* rich_subset(AR&, const std::vector<Tok>&, bool) { throw BadOp(); }
VBase* rich_idx(Array<1,int>& a, const Tok& t, bool cf);
VBase* rich_idx(Array<2,int>& a, const Tok& t, bool cf);
template <class AR> inline VBase* rich_idx(AR&, const Tok&, bool) { throw BadOp(); }

// ELEMENT access: operator() with only scalar arguments (no rich expression).  Every argument is passed exactly as
// written, per position an int or end-k (2^rank combinations, const and non-const), for every kind of object: the
// element accessors are separate functions per rank (and per const-ness) in Array.h and FixedArray.h, each resolving
// every index against the length of its own dimension.
template <class AR, int K, bool Done, typename... As> struct ElemDisp {
  static VBase* go(AR& a, const Call& c, As... as) {
    const Tok& t = c.t[K].b;
    if (t.cls == 0) return ElemDisp<AR, K + 1, (K + 1 == ArT<AR>::rank), As..., int>::go(a, c, as..., t.k);
    return ElemDisp<AR, K + 1, (K + 1 == ArT<AR>::rank), As..., EndX>::go(a, c, as..., endx(t.k));
  }
};
template <class AR, int K, typename... As> struct ElemDisp<AR, K, true, As...> {
  static VBase* go(AR& a, const Call& c, As... as) { return Terminal<true>::go(a, c, as...); }
};

// ELEMENT access with ONE rich index expression (any position; the other arguments int / end-k): every kind of object,
// const and non-const; defined in drv_views_el*.cpp (drv_views_el.h)
VBase* rich_elem(Array<1,int>& a, const Call& c);
VBase* rich_elem(Array<2,int>& a, const Call& c);
VBase* rich_elem(Array<3,int>& a, const Call& c);
VBase* rich_elem(Array<4,int>& a, const Call& c);
VBase* rich_elem(Array<5,int>& a, const Call& c);
VBase* rich_elem(Array<6,int>& a, const Call& c);
VBase* rich_elem(Array<1,double,true>& a, const Call& c);
VBase* rich_elem(Array<2,double,true>& a, const Call& c);
VBase* rich_elem(Array<3,double,true>& a, const Call& c);
VBase* rich_elem(Fix1& a, const Call& c);
VBase* rich_elem(Fix2& a, const Call& c);
VBase* rich_elem(Fix2s& a, const Call& c);
VBase* rich_elem(Fix3& a, const Call& c);
VBase* rich_elem(Fix4& a, const Call& c);
VBase* rich_elem(EFix4& a, const Call& c);
VBase* rich_elem(EFix5& a, const Call& c);
VBase* rich_elem(EFix6& a, const Call& c);
VBase* rich_elem(AFix1& a, const Call& c);
VBase* rich_elem(AFix2& a, const Call& c);
VBase* rich_elem(AFix3& a, const Call& c);
VBase* rich_elem(AFix4& a, const Call& c);

template <class AR> inline VBase* op_slice(AR& a, const std::vector<std::string>& w, bool cf) {
  enum { R = ArT<AR>::rank };
  if ((int)w.size() != R + 1) throw BadOp();
  Call c; c.t.resize(R); c.xpos = -1; c.cf = cf;
  bool all_scalar = true;
  for (int k = 0; k < R; ++k) {
    if (!parse_arg(w[k + 1], c.t[k])) throw BadOp();
    if (arg_rich(c.t[k])) { if (c.xpos >= 0) throw BadOp(); c.xpos = k; }
    if (c.t[k].kind != 0) all_scalar = false;
  }
  if (c.xpos >= 0 && all_scalar) return rich_elem(a, c);
  if (c.xpos >= 0) return rich_slice(a, c);
  if (all_scalar) return ElemDisp<AR, 0, false>::go(a, c);
  return DoSlice<AR>::go(a, c);
}

// ------------------------------------------------------------------ rich expressions: building the argument
enum { ROLE_S = 1, ROLE_B = 2, ROLE_E = 4, ROLE_BE = 8, ROLE_ST = 16 };
template <bool On> struct XCall {
  template <class F, class E> static typename F::result_type go(F& f, const E& e) { return f(e); }
};
template <> struct XCall<false> {
  template <class F, class E> static typename F::result_type go(F&, const E&) { throw BadOp(); }
};
// f(expression) with the expression built inside the call expression (nested expression objects refer to temporaries)
template <int Limit, class F> inline typename F::result_type with_xscalar(const Tok& t, F& f) {
  switch (t.shape) {
#define X(ID) case ID: return XCall<(ID < Limit)>::go(f, XE_##ID(t.c));
    XSHAPES(X)
#undef X
  }
  throw BadOp();
}
// the argument object of an operator() call that holds rich expressions: a scalar, or a RangeIndex whose begin /
// end / both (same shape) / stride is rich, the plain end points going through end-(len-1-k)
template <int Limit, int Roles, class F> inline typename F::result_type with_xarg(const Arg& x, int len, F& f) {
  if (x.kind == 3) throw BadOp();
  if (x.kind == 0) {
    switch (x.b.shape) {
#define X(ID) case ID: return XCall<(ID < Limit) && (Roles & ROLE_S)>::go(f, XE_##ID(x.b.c));
      XSHAPES(X)
#undef X
    }
    throw BadOp();
  }
  bool rb = x.b.cls == 2, re = x.e.cls == 2, rs = x.s.cls == 2;
  if (rb && !re && !rs) switch (x.b.shape) {
#define X(ID) case ID: return XCall<(ID < Limit) && (Roles & ROLE_B)>::go(f, stride(XE_##ID(x.b.c), via_end(x.e, len), x.s.k));
      XSHAPES(X)
#undef X
  }
  if (!rb && re && !rs) switch (x.e.shape) {
#define X(ID) case ID: return XCall<(ID < Limit) && (Roles & ROLE_E)>::go(f, stride(via_end(x.b, len), XE_##ID(x.e.c), x.s.k));
      XSHAPES(X)
#undef X
  }
  if (rb && re && !rs && x.b.shape == x.e.shape) switch (x.b.shape) {
#define X(ID) case ID: return XCall<(ID < Limit) && (Roles & ROLE_BE)>::go(f, stride(XE_##ID(x.b.c), XE_##ID(x.e.c), x.s.k));
      XSHAPES(X)
#undef X
  }
  if (!rb && !re && rs) switch (x.s.shape) {
#define X(ID) case ID: return XCall<(ID < Limit) && (Roles & ROLE_ST)>::go(f, stride(via_end(x.b, len), via_end(x.e, len), XE_##ID(x.s.c)));
      XSHAPES(X)
#undef X
  }
  throw BadOp();
}
template <class AR, int Fam> struct SliceCont {
  typedef VBase* result_type;
  AR& a; const Call& c;
  SliceCont(AR& a_, const Call& c_) : a(a_), c(c_) {}
  template <class XA> VBase* operator()(const XA& x) { return SliceDisp<AR, 0, Fam, XA, false, false>::go(a, c, x); }
};
template <class AR, int Limit, int Roles, int Fam> inline VBase* rich_slice_t(AR& a, const Call& c) {
  SliceCont<AR, Fam> f(a, c);
  return with_xarg<Limit, Roles>(c.t[c.xpos], a.dimension(c.xpos), f);
}

// ------------------------------------------------------------------ subset(b0,e0,...)
template <typename T> inline T cv(const Tok& t, int len);
template <> inline int cv<int>(const Tok& t, int) { return t.k; }
template <> inline EndX cv<EndX>(const Tok& t, int len) { return via_end(t, len); }
#define BE(j) cv<T>(t[2*j], a.dimension(j)), cv<T>(t[2*j+1], a.dimension(j))
template <int R> struct Subset;
template <> struct Subset<1> { template <typename T, class AR> static VBase* go(AR& a, const std::vector<Tok>& t, bool cf) {
  if (cf) return wrapc(static_cast<const AR&>(a).subset(BE(0))); return wrap(a.subset(BE(0))); } };
template <> struct Subset<2> { template <typename T, class AR> static VBase* go(AR& a, const std::vector<Tok>& t, bool cf) {
  if (cf) return wrapc(static_cast<const AR&>(a).subset(BE(0), BE(1))); return wrap(a.subset(BE(0), BE(1))); } };
template <> struct Subset<3> { template <typename T, class AR> static VBase* go(AR& a, const std::vector<Tok>& t, bool cf) {
  if (cf) return wrapc(static_cast<const AR&>(a).subset(BE(0), BE(1), BE(2))); return wrap(a.subset(BE(0), BE(1), BE(2))); } };
template <> struct Subset<4> { template <typename T, class AR> static VBase* go(AR& a, const std::vector<Tok>& t, bool cf) {
  if (cf) return wrapc(static_cast<const AR&>(a).subset(BE(0), BE(1), BE(2), BE(3))); return wrap(a.subset(BE(0), BE(1), BE(2), BE(3))); } };
template <> struct Subset<5> { template <typename T, class AR> static VBase* go(AR& a, const std::vector<Tok>& t, bool cf) {
  if (cf) return wrapc(static_cast<const AR&>(a).subset(BE(0), BE(1), BE(2), BE(3), BE(4)));
  return wrap(a.subset(BE(0), BE(1), BE(2), BE(3), BE(4))); } };
template <> struct Subset<6> { template <typename T, class AR> static VBase* go(AR& a, const std::vector<Tok>& t, bool cf) {
  if (cf) return wrapc(static_cast<const AR&>(a).subset(BE(0), BE(1), BE(2), BE(3), BE(4), BE(5)));
  return wrap(a.subset(BE(0), BE(1), BE(2), BE(3), BE(4), BE(5))); } };
#undef BE
template <class AR> inline VBase* op_subset(AR& a, const std::vector<std::string>& w, bool cf) {
  enum { R = ArT<AR>::rank };
  if ((int)w.size() != 2 * R + 1) throw BadOp();
  std::vector<Tok> t(2 * R);
  bool any_end = false, any_rich = false;
  for (int k = 0; k < 2 * R; ++k) {
    if (!parse_tok(w[k + 1], t[k])) throw BadOp();
    any_end = any_end || t[k].cls == 1;
    any_rich = any_rich || t[k].cls == 2;
  }
  if (any_rich) return rich_subset(a, t, cf);
  return any_end ? Subset<R>::template go<EndX>(a, t, cf) : Subset<R>::template go<int>(a, t, cf);
}

// ------------------------------------------------------------------ operator[], T, diag_vector, submatrix_on_diagonal, reshape
// FixedArray of rank > 1 has no const operator[]
template <bool HasConst> struct IdxC {
  template <class AR, class I> static VBase* go(AR& a, const I& i, bool cf) {
    if (cf) return wrapc(static_cast<const AR&>(a)[i]);
    return wrap(a[i]);
  }
};
template <> struct IdxC<false> {
  template <class AR, class I> static VBase* go(AR& a, const I& i, bool cf) {
    if (cf) throw BadOp();
    return wrap(a[i]);
  }
};
template <class AR> inline VBase* op_idx(AR& a, const std::vector<std::string>& w, bool cf) {
  Tok t;
  if (w.size() != 2 || !parse_tok(w[1], t)) throw BadOp();
  if (t.cls == 2) return rich_idx(a, t, cf);
  typedef IdxC<!(ArT<AR>::fixed && ArT<AR>::rank > 1)> I;
  return t.cls == 1 ? I::go(a, endx(t.k), cf) : I::go(a, t.k, cf);
}
template <bool Active> struct ReshapeHi {
  template <class AR> static VBase* go(AR& a, const std::vector<int>& d) {
    switch (d.size()) {
      case 4: return wrap(a.reshape(ExpressionSize<4>(d[0], d[1], d[2], d[3])));
      case 5: return wrap(a.reshape(ExpressionSize<5>(d[0], d[1], d[2], d[3], d[4])));
      case 6: return wrap(a.reshape(ExpressionSize<6>(d[0], d[1], d[2], d[3], d[4], d[5])));
      default: throw BadOp();
    }
  }
};
template <> struct ReshapeHi<true> { template <class AR> static VBase* go(AR&, const std::vector<int>&) { throw BadOp(); } };
template <int R> struct RankOps {   // R >= 3
  template <class AR> static VBase* T(AR&, bool) { throw BadOp(); }
  template <class AR> static VBase* diag(AR&, int) { throw BadOp(); }
  template <class AR> static VBase* subdiag(AR&, int, int) { throw BadOp(); }
  template <class AR> static VBase* reshape(AR&, const std::vector<int>&) { throw BadOp(); }
};
template <> struct RankOps<2> {
  template <class AR> static VBase* T(AR& a, bool cf) { if (cf) return wrapc(static_cast<const AR&>(a).T()); return wrap(a.T()); }
  template <class AR> static VBase* diag(AR& a, int k) {
    Array<1, typename ArT<AR>::elem, ArT<AR>::active> d = a.diag_vector(k);
    if (!d.data()) return 0;   // default-constructed (empty) vector
    return wrap(d);
  }
  template <class AR> static VBase* subdiag(AR& a, int b, int e) { return wrap(a.submatrix_on_diagonal(b, e)); }
  template <class AR> static VBase* reshape(AR&, const std::vector<int>&) { throw BadOp(); }
};
template <bool Fixed> struct Reshape1 {
  template <class AR> static VBase* go(AR& a, const std::vector<int>& d) {
    switch (d.size()) {
      case 1: return wrap(a.reshape(ExpressionSize<1>(d[0])));
      case 2: return wrap(a.reshape(d[0], d[1]));
      case 3: return wrap(a.reshape(ExpressionSize<3>(d[0], d[1], d[2])));
      default: return ReshapeHi<ArT<AR>::active>::go(a, d);
    }
  }
};
template <> struct Reshape1<true> { template <class AR> static VBase* go(AR&, const std::vector<int>&) { throw BadOp(); } };
template <> struct RankOps<1> {
  template <class AR> static VBase* T(AR&, bool) { throw BadOp(); }
  template <class AR> static VBase* diag(AR&, int) { throw BadOp(); }
  template <class AR> static VBase* subdiag(AR&, int, int) { throw BadOp(); }
  template <class AR> static VBase* reshape(AR& a, const std::vector<int>& d) { return Reshape1<ArT<AR>::fixed>::go(a, d); }
};
// permute(Index i0, Index i1, Index i2 = -1, ...): the overload with separate arguments, ranks 2..6
template <int R> struct PermuteArgs { template <class AR> static VBase* go(AR&, const int*) { throw BadOp(); } };
template <> struct PermuteArgs<2> { template <class AR> static VBase* go(AR& a, const int* p) { return wrap(a.permute(p[0], p[1])); } };
template <> struct PermuteArgs<3> { template <class AR> static VBase* go(AR& a, const int* p) { return wrap(a.permute(p[0], p[1], p[2])); } };
template <> struct PermuteArgs<4> { template <class AR> static VBase* go(AR& a, const int* p) { return wrap(a.permute(p[0], p[1], p[2], p[3])); } };
template <> struct PermuteArgs<5> { template <class AR> static VBase* go(AR& a, const int* p) { return wrap(a.permute(p[0], p[1], p[2], p[3], p[4])); } };
template <> struct PermuteArgs<6> { template <class AR> static VBase* go(AR& a, const int* p) { return wrap(a.permute(p[0], p[1], p[2], p[3], p[4], p[5])); } };
// soft_link, is_contiguous: Array only
template <bool Fixed> struct ArrOnly {
  template <class AR> static VBase* softlink(AR& a, bool cf) { if (cf) return wrapc(static_cast<const AR&>(a).soft_link()); return wrap(a.soft_link()); }
  template <class AR> static int contig(AR& a) { return a.is_contiguous() ? 1 : 0; }
};
template <> struct ArrOnly<true> {
  template <class AR> static VBase* softlink(AR&, bool) { throw BadOp(); }
  template <class AR> static int contig(AR&) { throw BadOp(); }
};

// ------------------------------------------------------------------ every operation on one array object
template <class AR> inline std::string describe_arr(AR& a) {
  enum { R = ArT<AR>::rank };
  typedef typename ArT<AR>::elem T;
  const AR& ca = a;
  std::ostringstream os;
  os << "ok r=" << R << " d=";
  for (int k = 0; k < R; ++k) os << (k ? "," : "") << a.dimension(k);
  os << " s=";
  for (int k = 0; k < R; ++k) os << (k ? "," : "") << a.offset(k);
  long off = Mem<T>::cell(ca.data());
  os << " o=" << off;
  if (ArT<AR>::active && (long)(a.gradient_index() - g_gbase) != off) os << "!g" << (long)(a.gradient_index() - g_gbase);
  os << " e=";
  bool none = false;
  for (int k = 0; k < R; ++k) if (a.dimension(k) <= 0) none = true;
  int ix[R];
  long j = 0;
  if (!none) {
    for (int k = 0; k < R; ++k) ix[k] = 0;
    for (;;) {                                           // read through the const element access
      os << (j ? "," : "") << elval(El<R>::cc(ca, ix));
      ++j;
      int k = R - 1;
      while (k >= 0 && ++ix[k] == a.dimension(k)) { ix[k] = 0; --k; }
      if (k < 0) break;
    }
    for (int k = 0; k < R; ++k) ix[k] = 0;
    j = 0;
    for (;;) {                                           // write through the non-const element access
      ++j;
      El<R>::nc(a, ix) = (T)(-j);
      int k = R - 1;
      while (k >= 0 && ++ix[k] == a.dimension(k)) { ix[k] = 0; --k; }
      if (k < 0) break;
    }
  }
  os << " w=" << dump_changes();
  return os.str();
}

template <class AR> inline VBase* apply_arr(AR& a, const std::vector<std::string>& w0) {
  enum { R = ArT<AR>::rank };
  std::vector<std::string> w(w0);
  bool cf = false;
  if (w[0].size() > 1 && w[0][0] == 'c') { cf = true; w[0] = w[0].substr(1); }   // the const overload of the member
  const std::string& op = w[0];
  if (op == "slice") return op_slice(a, w, cf);
  if (op == "subset") return op_subset(a, w, cf);
  if (op == "idx") return op_idx(a, w, cf);
  if (op == "T" && w.size() == 1) return RankOps<R>::T(a, cf);
  if (op == "softlink" && w.size() == 1) return ArrOnly<ArT<AR>::fixed>::softlink(a, cf);
  if (cf) throw BadOp();                 // permute, diag_vector, submatrix_on_diagonal, reshape have no const overload
  if (op == "permute" || op == "permuteE" || op == "permuteV") {
    if ((int)w.size() != R + 1) throw BadOp();
    int p[R];
    for (int k = 0; k < R; ++k) if (!parse_int(w[k + 1], p[k])) throw BadOp();
    if (op == "permuteE") {                       // permute(const ExpressionSize<Rank>&)
      ExpressionSize<R> e;
      for (int k = 0; k < R; ++k) e[k] = p[k];
      return wrap(a.permute(e));
    }
    if (op == "permuteV") return PermuteArgs<R>::go(a, p);   // permute(i0, i1, ...)
    return wrap(a.permute(p));
  }
  if (op == "diag") {
    int k;
    if (w.size() != 2 || !parse_int(w[1], k)) throw BadOp();
    return RankOps<R>::diag(a, k);
  }
  if (op == "subdiag") {
    int b, e;
    if (w.size() != 3 || !parse_int(w[1], b) || !parse_int(w[2], e)) throw BadOp();
    return RankOps<R>::subdiag(a, b, e);
  }
  if (op == "reshape") {
    std::vector<int> d(w.size() - 1);
    if (d.empty() || d.size() > 6) throw BadOp();
    for (size_t k = 0; k < d.size(); ++k) if (!parse_int(w[k + 1], d[k])) throw BadOp();
    return RankOps<R>::reshape(a, d);
  }
  throw BadOp();
}

// an Array (the object itself is the view: the copy constructor links)
template <class AR> struct V : VBase {
  AR a;
  explicit V(const AR& x) : a(x) {}
  int rank() const { return ArT<AR>::rank; }
  int contig() { return ArrOnly<false>::contig(a); }
  std::string indexed(const std::vector<std::string>& w) { return ix_op(a, w); }
  std::string describe() { std::string s = describe_arr(a); return s + whole_view_ops(a); }
  VBase* apply(const std::vector<std::string>& w) { return apply_arr(a, w); }
};
// the FixedArray parent (owned by the main program)
template <class FA> struct VF : VBase {
  FA* f;
  explicit VF(FA* x) : f(x) {}
  int rank() const { return ArT<FA>::rank; }
  int contig() { throw BadOp(); }
  std::string indexed(const std::vector<std::string>&) { throw BadOp(); }
  std::string describe() { return describe_arr(*f); }
  VBase* apply(const std::vector<std::string>& w) { return apply_arr(*f, w); }
};

// ------------------------------------------------------------------ parents
template <class AR> inline VBase* make_parent(const std::vector<int>& d, AR*& keep) {
  enum { R = ArT<AR>::rank };
  typedef typename ArT<AR>::elem T;
  ExpressionSize<R> dims;
  for (int k = 0; k < R; ++k) dims[k] = d[k];
  if (ArT<AR>::active) {
    // (the constructor pads the rows of a row-major double array to the packet size; the parent is to be dense)
    keep = new AR();
    if (internal::array_row_major_order) keep->resize_row_major_contiguous(dims); else keep->resize_column_major(dims);
  }
  else keep = new AR(dims);
  g_vol = 1;
  for (int k = 0; k < R; ++k) g_vol *= d[k];
  T* p = keep->data();
  set_base(p);
  g_gbase = keep->gradient_index();
  for (long c = 0; c < g_vol; ++c) p[c] = (T)c;
  return new V<AR>(*keep);
}
VBase* make_fixed(const std::vector<int>& d, Fix1*& f1, Fix2*& f2, Fix2s*& f2s, Fix3*& f3, Fix4*& f4);
VBase* make_fixed4(Fix4*& f4);          // drv_views_fix4.cpp
VBase* make_efixed(const std::vector<int>& d);     // drv_views_eld.cpp: EFix4 / EFix5 / EFix6 (the object is owned by the VBase)
VBase* make_afixed(const std::vector<int>& d);     // drv_views_ele.cpp: AFix1..AFix4
template <class FA> inline VBase* make_fixed_one(FA*& keep) {
  keep = new FA;
  int* p = keep->data();
  set_base(p);
  g_vol = 1;
  for (int k = 0; k < ArT<FA>::rank; ++k) g_vol *= keep->dimension(k);
  for (long c = 0; c < g_vol; ++c) p[c] = (int)c;
  return new VF<FA>(keep);
}

// one per rank, defined next to V<AR>
VBase* make_parent_1(const std::vector<int>& d, Array<1,int>*& keep);
VBase* make_parent_2(const std::vector<int>& d, Array<2,int>*& keep);
VBase* make_parent_3(const std::vector<int>& d, Array<3,int>*& keep);
VBase* make_parent_4(const std::vector<int>& d, Array<4,int>*& keep);
VBase* make_parent_5(const std::vector<int>& d, Array<5,int>*& keep);
VBase* make_parent_6(const std::vector<int>& d, Array<6,int>*& keep);
VBase* make_aparent_1(const std::vector<int>& d, Array<1,double,true>*& keep);
VBase* make_aparent_2(const std::vector<int>& d, Array<2,double,true>*& keep);
VBase* make_aparent_3(const std::vector<int>& d, Array<3,double,true>*& keep);
#define VIEWS_DEFINE_RANK(R) \
  VBase* wrap(const Array<R,int>& a) { return new V<Array<R,int> >(a); } \
  VBase* make_parent_##R(const std::vector<int>& d, Array<R,int>*& keep) { return make_parent<Array<R,int> >(d, keep); }
#define VIEWS_DEFINE_ACTIVE_RANK(R) \
  VBase* wrap(const Array<R,double,true>& a) { return new V<Array<R,double,true> >(a); } \
  VBase* make_aparent_##R(const std::vector<int>& d, Array<R,double,true>*& keep) { return make_parent<Array<R,double,true> >(d, keep); }
#define VIEWS_DEFINE_SLICE_FAMILY(R, NAME, FAM) \
  VBase* NAME(Array<R,int>& a, const Call& c) { return slice_fam<Array<R,int>, FAM>(a, c); }
#endif
