// Correspondence driver for active array statements (family `arrayad`; properties C03, C09).
//
// One op per input line, exactly one output line per op.  Values are small integers / dyadic rationals held in
// doubles (exact regime); every double is printed exactly (integer, or num/2^k, or %.17g as a last resort).
//
// Views are held as shallow copies (copy construction links to the source's data) — `v >>= x.soft_link()` would
// dereference the null Storage pointer of a storage-less active source (Array::link, GradientIndex::set).
// OP GRAMMAR (handles are non-negative integers chosen by the caller; `:` separates a value list)
//   cfg                                   new Stack, empty pools, event log installed            -> cfg
//   av <h> [col] <d0> [d1 [d2 [d3]]] : v..  new active Array (rank = #dims <= 4), values in index order -> ok <geom>
//   pv <h> [col] <d0> [d1 [d2 [d3]]] : v..  new passive Array
//   as <h> <v>                            new adouble                                              -> ok <geom>
//   iv <h> : i0 i1 ..                     new intVector                                            -> ok iv=..
//   f4 <h> : v0..v3    f23 <h> : v0..v5   new active FixedArray<double,true,4> / <double,true,2,3>
//   f234 <h> : v0..v23   f2232 <h> : v0..v23   new active FixedArray<double,true,2,3,4> / <double,true,2,2,3,2> (index order)
//   vw <h> <src> <ix> [<ix> [<ix> [<ix>]]] view; <ix> = i<k> (scalar index) | s<b>:<e>:<st> (stride(b,e,st), st of either sign)
//                                         (rank 4: at most one scalar index)
//   vT <h> <src>                          src.T() (rank 2)        vperm <h> <src> <p0> <p1> <p2> [<p3>]   src.permute (rank 3, 4)
//   vdiag <h> <src> <k>                   src.diag_vector(k)      vsoft <h> <src>   src.soft_link()   vlink <h> <src>  (shallow copy)
//   nr                                    new_recording                                            -> ok
//   <statement kind> <args>               see drv_arrayad_s1..s8.cpp                               -> S <status> | ... (below)
//   jac : <indep handles> : <dep handles> clear lists, independent()/dependent() each, jacobian()  -> J m n : entries (row-major)
//   ev                                    hook-H1 event log since the last `ev`                     -> E nOps/alloc nSt/alloc : events
//   tape                                  whole tape                                               -> T nst nop | lhs:m*i,.. | ..
//   geom <h>                              geometry of an object                                    -> G ...
//   pad <k>                               k>0: identity statement d[0] = 1*d[0]+0*d[0]+.. (k operations): sets the fill level  -> ok
//
// GEOMETRY  h=<handle>;r=<root handle>;k=<kind>;a=<0|1>;g=<gradient_index()|-1>;o=<offset of data() from the root's
//           first cell>;d=<dims,>;s=<strides,>;v=<values in index order, read through operator()>
// STATEMENT LINE
//   S ok|EXC <name> | G <geom target before> | G <geom operand> .. | M <root> <gbase> <n> : cells (before; each root once)
//     | T <lhs>:<m>*<i>,<m>*<i> ; <lhs>: ; ..   (tape statements appended by the statement)
//     | A <geom target after> | N <root> <gbase> <n> : cells (after)
#include "drv_arrayad.h"
using namespace adept;

namespace aad {

verif::SpyStack* st = 0;
std::map<long, Obj> pool;

std::string num(double x) {
  char b[80];
  if (x == std::floor(x) && std::fabs(x) < 9.0e15) { snprintf(b, sizeof b, "%lld", (long long)x); return b; }
  if (std::isfinite(x)) {
    for (int k = 1; k <= 60; ++k) {
      double y = std::ldexp(x, k);
      if (y == std::floor(y) && std::fabs(y) < 9.0e15) { snprintf(b, sizeof b, "%lld/%lld", (long long)y, 1LL << k); return b; }
    }
  }
  snprintf(b, sizeof b, "%.17g", x);
  return b;
}

Obj* get(const std::string& w) {
  char* e; long h = strtol(w.c_str(), &e, 10);
  if (*e || w.empty()) return 0;
  std::map<long, Obj>::iterator it = pool.find(h);
  return it == pool.end() ? 0 : &it->second;
}
Obj* getk(const std::string& w, int kind) { Obj* o = get(w); return (o && o->kind == kind) ? o : 0; }
Obj* geta(const std::string& w, int rank) { Obj* o = get(w); return (o && o->kind == K_ARR && o->rank == rank) ? o : 0; }
Obj* getat(const std::string& w, int rank) { Obj* o = geta(w, rank); return (o && o->active) ? o : 0; }

long handle_of(Obj* o) {
  for (std::map<long, Obj>::iterator it = pool.begin(); it != pool.end(); ++it) if (&it->second == o) return it->first;
  return -1;
}

static Obj& root_of(Obj& o) { return pool[o.root]; }

static inline double val_of(double x) { return x; }
template <class T> static inline double val_of(const T& x) { return x.value(); }
template <int R, bool A>
static double elem_value(Array<R, double, A>& a, const ExpressionSize<R>& ix) {
  if constexpr (R == 1) return val_of(a(ix[0]));
  else if constexpr (R == 2) return val_of(a(ix[0], ix[1]));
  else if constexpr (R == 3) return val_of(a(ix[0], ix[1], ix[2]));
  else return val_of(a(ix[0], ix[1], ix[2], ix[3]));
}

template <int R, bool A>
static void geom_arr(std::ostringstream& os, Array<R, double, A>& a, Obj& o) {
  Obj& r = root_of(o);
  os << ";g=" << (A ? (long)a.gradient_index() : -1L) << ";o=" << (a.empty() ? 0L : (long)(a.data() - r.base)) << ";d=";
  for (int i = 0; i < R; ++i) os << (i ? "," : "") << a.dimension(i);
  os << ";s=";
  for (int i = 0; i < R; ++i) os << (i ? "," : "") << a.offset(i);
  os << ";v=";
  if (!a.empty()) {
    ExpressionSize<R> ix(0);
    bool first = true;
    for (;;) {
      Index off = 0;
      for (int i = 0; i < R; ++i) off += ix[i] * a.offset(i);
      // read through the public element access; it must agree with the printed geometry
      double v = elem_value(a, ix);
      if (v != a.data()[off] && !(v != v)) os << "!GEOM";
      os << (first ? "" : ",") << num(v);
      first = false;
      int k = R - 1;
      while (k >= 0 && ++ix[k] >= a.dimension(k)) { ix[k] = 0; --k; }
      if (k < 0) break;
    }
  }
}


// FixedArray of rank R: dims and strides as the object reports them, values in index order through data()[sum i*offset]
template <int R, class F>
static void geom_fixed(std::ostringstream& os, F& f) {
  os << ";g=" << f.gradient_index() << ";o=0;d=";
  for (int i = 0; i < R; ++i) os << (i ? "," : "") << f.dimension(i);
  os << ";s=";
  for (int i = 0; i < R; ++i) os << (i ? "," : "") << f.offset(i);
  os << ";v=";
  ExpressionSize<R> ix(0);
  bool first = true;
  for (;;) {
    Index off = 0;
    for (int i = 0; i < R; ++i) off += ix[i] * f.offset(i);
    os << (first ? "" : ",") << num(f.data()[off]);
    first = false;
    int k = R - 1;
    while (k >= 0 && ++ix[k] >= f.dimension(k)) { ix[k] = 0; --k; }
    if (k < 0) break;
  }
}
// fill in index order; returns the number of cells
template <int R, class F>
static long fill_fixed(F& f, const Words& w, size_t from) {
  ExpressionSize<R> ix(0);
  long n = 0;
  for (;;) {
    Index off = 0;
    for (int i = 0; i < R; ++i) off += ix[i] * f.offset(i);
    f.data()[off] = atof(w[from + n].c_str());
    ++n;
    int k = R - 1;
    while (k >= 0 && ++ix[k] >= f.dimension(k)) { ix[k] = 0; --k; }
    if (k < 0) break;
  }
  return n;
}

static std::string geom(long h) {
  Obj& o = pool[h];
  std::ostringstream os;
  os << "h=" << h << ";r=" << o.root << ";k=" << o.kind << ";a=" << (o.active ? 1 : 0);
  switch (o.kind) {
    case K_ARR:
      if (o.rank == 1) { if (o.active) geom_arr(os, as<1, true>(o), o); else geom_arr(os, as<1, false>(o), o); }
      else if (o.rank == 2) { if (o.active) geom_arr(os, as<2, true>(o), o); else geom_arr(os, as<2, false>(o), o); }
      else if (o.rank == 3) { if (o.active) geom_arr(os, as<3, true>(o), o); else geom_arr(os, as<3, false>(o), o); }
      else { if (o.active) geom_arr(os, as<4, true>(o), o); else geom_arr(os, as<4, false>(o), o); }
      break;
    case K_FA4: {
      FA4& f = asF4(o);
      os << ";g=" << f.gradient_index() << ";o=0;d=4;s=1;v=";
      for (int i = 0; i < 4; ++i) os << (i ? "," : "") << num(f.data()[i]);
      break; }
    case K_FA23: {
      FA23& f = asF23(o);
      os << ";g=" << f.gradient_index() << ";o=0;d=2,3;s=" << f.offset(0) << "," << f.offset(1) << ";v=";
      for (int i = 0; i < 2; ++i) for (int j = 0; j < 3; ++j) os << ((i || j) ? "," : "") << num(f.data()[i * f.offset(0) + j * f.offset(1)]);
      break; }
    case K_FA234: geom_fixed<3>(os, asF234(o)); break;
    case K_FA2232: geom_fixed<4>(os, asF2232(o)); break;
    case K_SCAL: {
      adouble& x = asS(o);
      os << ";g=" << x.gradient_index() << ";o=0;d=;s=;v=" << num(x.value());
      break; }
    case K_IVEC: {
      intVector& v = asI(o);
      os << ";iv=";
      for (Index i = 0; i < v.size(); ++i) os << (i ? "," : "") << v(i);
      break; }
  }
  return os.str();
}

// after a statement the target may have taken over another Storage (move assignment swaps): re-derive its root record
static void refresh(long h) {
  Obj& o = pool[h];
  if (o.kind == K_SCAL) { o.base = 0; o.gbase = asS(o).gradient_index(); return; }
  if (o.kind != K_ARR) return;
  Obj& r = root_of(o);
  double* d = 0; long n = 0, g = -1; bool owns = false;
#define AAD_REF(R, A) { Array<R, double, A>& a = as<R, A>(o); if (!a.empty() && a.storage()) { owns = true; d = a.storage()->data(); \
    n = a.storage()->n_allocated(); g = A ? (long)a.storage()->gradient_index() : -1; } }
  if (o.rank == 1) { if (o.active) AAD_REF(1, true) else AAD_REF(1, false) }
  else if (o.rank == 2) { if (o.active) AAD_REF(2, true) else AAD_REF(2, false) }
  else if (o.rank == 3) { if (o.active) AAD_REF(3, true) else AAD_REF(3, false) }
  else { if (o.active) AAD_REF(4, true) else AAD_REF(4, false) }
#undef AAD_REF
  if (owns && d != r.base) { o.root = h; o.base = d; o.n = n; o.gbase = g; }
}

static std::string mem_image(long rooth) {
  Obj& r = pool[rooth];
  std::ostringstream os;
  if (r.kind == K_SCAL) { os << rooth << " " << asS(r).gradient_index() << " 1 : " << num(asS(r).value()); return os.str(); }
  os << rooth << " " << r.gbase << " " << r.n << " :";
  for (long i = 0; i < r.n; ++i) os << " " << num(r.base[i]);
  return os.str();
}

void Ctx::pre(const std::vector<Obj*>& os) {
  std::ostringstream out;
  std::set<long> roots;
  for (size_t i = 0; i < os.size(); ++i) {
    long h = handle_of(os[i]);
    objs.push_back(h);
    out << " | G " << geom(h);
  }
  for (size_t i = 0; i < os.size(); ++i) {
    if (os[i]->kind == K_IVEC) continue;
    long r = os[i]->root;
    if (roots.insert(r).second) out << " | M " << mem_image(r);
  }
  before = out.str();
  pre_done = true;
}

static std::string tape_from(uIndex first_stmt) {
  std::ostringstream os;
  for (uIndex i = first_stmt; i < st->n_statements(); ++i) {
    if (i > first_stmt) os << " ; ";
    os << st->st_index(i) << ":";
    for (uIndex j = st->st_end(i - 1); j < st->st_end(i); ++j) {
      if (j > st->st_end(i - 1)) os << ",";
      // under hook H1 an out-of-range push is counted but not performed: there is nothing to read there
      if (j >= st->n_allocated_operations()) { os << "!OOB"; continue; }
      os << num(st->op_mult(j)) << "*" << st->op_index(j);
    }
  }
  return os.str();
}

static std::string excname(const std::exception& e) {
  if (dynamic_cast<const size_mismatch*>(&e)) return "size_mismatch";
  if (dynamic_cast<const index_out_of_bounds*>(&e)) return "index_out_of_bounds";
  if (dynamic_cast<const invalid_dimension*>(&e)) return "invalid_dimension";
  if (dynamic_cast<const invalid_operation*>(&e)) return "invalid_operation";
  if (dynamic_cast<const empty_array*>(&e)) return "empty_array";
  return std::string("other:") + e.what();
}

static void destroy(Obj& o) {
  switch (o.kind) {
    case K_ARR:
      if (o.rank == 1) { if (o.active) delete &as<1, true>(o); else delete &as<1, false>(o); }
      else if (o.rank == 2) { if (o.active) delete &as<2, true>(o); else delete &as<2, false>(o); }
      else if (o.rank == 3) { if (o.active) delete &as<3, true>(o); else delete &as<3, false>(o); }
      else { if (o.active) delete &as<4, true>(o); else delete &as<4, false>(o); }
      break;
    case K_FA4: delete &asF4(o); break;
    case K_FA23: delete &asF23(o); break;
    case K_FA234: delete &asF234(o); break;
    case K_FA2232: delete &asF2232(o); break;
    case K_SCAL: delete &asS(o); break;
    case K_IVEC: delete &asI(o); break;
  }
}

static void cleanup() {
  // views first (they hold links), then roots, in reverse creation order
  for (std::map<long, Obj>::reverse_iterator it = pool.rbegin(); it != pool.rend(); ++it) destroy(it->second);
  pool.clear();
  delete st; st = 0;
}

// ---- creation ----
template <int R, bool A>
static bool create(long h, bool col, const std::vector<Index>& d, const std::vector<double>& v) {
  ExpressionSize<R> dims;
  long tot = 1;
  for (int i = 0; i < R; ++i) { dims[i] = d[i]; tot *= d[i]; }
  if ((long)v.size() != tot || tot <= 0) return false;
  Array<R, double, A>* a = new Array<R, double, A>();
  if (col) a->resize_column_major(dims); else a->resize(dims);
  // zero the whole allocation (padding cells included), then the values in index order; nothing is recorded
  double* base = a->data();
  long n = a->storage()->n_allocated();
  for (long i = 0; i < n; ++i) base[i] = 0.0;
  ExpressionSize<R> ix(0);
  for (long k = 0; k < tot; ++k) {
    Index off = 0;
    for (int i = 0; i < R; ++i) off += ix[i] * a->offset(i);
    base[off] = v[k];
    int q = R - 1;
    while (q >= 0 && ++ix[q] >= dims[q]) { ix[q] = 0; --q; }
  }
  add_root<R, A>(h, a);
  return true;
}

template <int R, bool A>
static void add_view(long h, Obj& src, Array<R, double, A>* v) {
  Obj o; o.kind = K_ARR; o.rank = R; o.active = A; o.p = v; o.root = src.root; o.base = 0; o.n = 0; o.gbase = -1;
  pool[h] = o;
}

struct Ix { bool scalar; Index k, b, e, s; };
static bool parse_ix(const std::string& w, Ix& x) {
  if (w.size() < 2) return false;
  if (w[0] == 'i') { x.scalar = true; x.k = atoi(w.c_str() + 1); return true; }
  if (w[0] == 's') { x.scalar = false; int b, e, s; if (sscanf(w.c_str() + 1, "%d:%d:%d", &b, &e, &s) != 3 || s == 0) return false; x.b = b; x.e = e; x.s = s; return true; }
  return false;
}

template <bool A>
static bool make_view(long h, Obj& src, const std::vector<Ix>& ix) {
  int R = src.rank;
  if ((int)ix.size() != R) return false;
  int ns = 0; for (int i = 0; i < R; ++i) ns += ix[i].scalar;
#define ST(i) stride(ix[i].b, ix[i].e, ix[i].s)
  if (R == 1) {
    if (ns) return false;
    Array<1, double, A>* v = new Array<1, double, A>(as<1, A>(src)(ST(0))); add_view<1, A>(h, src, v); return true;
  }
  if (R == 2) {
    Array<2, double, A>& s = as<2, A>(src);
    if (ns == 0) { Array<2, double, A>* v = new Array<2, double, A>(s(ST(0), ST(1))); add_view<2, A>(h, src, v); return true; }
    if (ns == 1) {
      Array<1, double, A>* v = ix[0].scalar ? new Array<1, double, A>(s(ix[0].k, ST(1))) : new Array<1, double, A>(s(ST(0), ix[1].k));
      add_view<1, A>(h, src, v); return true;
    }
    return false;
  }
  if (R == 4) {
    Array<4, double, A>& s = as<4, A>(src);
    if (ns == 0) { Array<4, double, A>* v = new Array<4, double, A>(s(ST(0), ST(1), ST(2), ST(3))); add_view<4, A>(h, src, v); return true; }
    if (ns == 1) {
      Array<3, double, A>* v = ix[0].scalar ? new Array<3, double, A>(s(ix[0].k, ST(1), ST(2), ST(3)))
        : ix[1].scalar ? new Array<3, double, A>(s(ST(0), ix[1].k, ST(2), ST(3)))
        : ix[2].scalar ? new Array<3, double, A>(s(ST(0), ST(1), ix[2].k, ST(3))) : new Array<3, double, A>(s(ST(0), ST(1), ST(2), ix[3].k));
      add_view<3, A>(h, src, v); return true;
    }
    return false;
  }
  Array<3, double, A>& s = as<3, A>(src);
  if (ns == 0) { Array<3, double, A>* v = new Array<3, double, A>(s(ST(0), ST(1), ST(2))); add_view<3, A>(h, src, v); return true; }
  if (ns == 1) {
    Array<2, double, A>* v = ix[0].scalar ? new Array<2, double, A>(s(ix[0].k, ST(1), ST(2)))
      : ix[1].scalar ? new Array<2, double, A>(s(ST(0), ix[1].k, ST(2))) : new Array<2, double, A>(s(ST(0), ST(1), ix[2].k));
    add_view<2, A>(h, src, v); return true;
  }
  if (ns == 2) {
    Array<1, double, A>* v = !ix[0].scalar ? new Array<1, double, A>(s(ST(0), ix[1].k, ix[2].k))
      : !ix[1].scalar ? new Array<1, double, A>(s(ix[0].k, ST(1), ix[2].k)) : new Array<1, double, A>(s(ix[0].k, ix[1].k, ST(2)));
    add_view<1, A>(h, src, v); return true;
  }
#undef ST
  return false;
}

template <bool A>
static bool other_view(const Words& w, long h, Obj& src) {
  if (w[0] == "vT" && src.rank == 2) { Array<2, double, A>* v = new Array<2, double, A>(as<2, A>(src).T()); add_view<2, A>(h, src, v); return true; }
  if (w[0] == "vperm" && src.rank == 3 && w.size() == 6) {
    Array<3, double, A>* v = new Array<3, double, A>(as<3, A>(src).permute(atoi(w[3].c_str()), atoi(w[4].c_str()), atoi(w[5].c_str())));
    add_view<3, A>(h, src, v); return true;
  }
  if (w[0] == "vperm" && src.rank == 4 && w.size() == 7) {
    Array<4, double, A>* v = new Array<4, double, A>(as<4, A>(src).permute(atoi(w[3].c_str()), atoi(w[4].c_str()), atoi(w[5].c_str()), atoi(w[6].c_str())));
    add_view<4, A>(h, src, v); return true;
  }
  if (w[0] == "vdiag" && src.rank == 2 && w.size() == 4) {
    Array<1, double, A>* v = new Array<1, double, A>(as<2, A>(src).diag_vector(atoi(w[3].c_str())));
    add_view<1, A>(h, src, v); return true;
  }
  if (w[0] == "vsoft" || w[0] == "vlink") {
    bool soft = w[0] == "vsoft";
    if (src.rank == 1) { Array<1, double, A>* v = soft ? new Array<1, double, A>(as<1, A>(src).soft_link()) : new Array<1, double, A>(as<1, A>(src)); add_view<1, A>(h, src, v); }
    else if (src.rank == 2) { Array<2, double, A>* v = soft ? new Array<2, double, A>(as<2, A>(src).soft_link()) : new Array<2, double, A>(as<2, A>(src)); add_view<2, A>(h, src, v); }
    else if (src.rank == 3) { Array<3, double, A>* v = soft ? new Array<3, double, A>(as<3, A>(src).soft_link()) : new Array<3, double, A>(as<3, A>(src)); add_view<3, A>(h, src, v); }
    else { Array<4, double, A>* v = soft ? new Array<4, double, A>(as<4, A>(src).soft_link()) : new Array<4, double, A>(as<4, A>(src)); add_view<4, A>(h, src, v); }
    return true;
  }
  return false;
}

} // namespace aad

using namespace aad;

static bool split_colon(const Words& w, size_t from, std::vector<std::string>& a, std::vector<std::string>& b) {
  size_t i = from;
  for (; i < w.size() && w[i] != ":"; ++i) a.push_back(w[i]);
  if (i == w.size()) return false;
  for (++i; i < w.size(); ++i) b.push_back(w[i]);
  return true;
}

int main() {
  std::cout << std::unitbuf;   // a sanitizer abort must not swallow the lines already produced
  st = new verif::SpyStack();
  std::string line;
  while (std::getline(std::cin, line)) {
    Words w = verif::words(line);
    if (w.empty()) continue;
    try {
      if (w[0] == "cfg") {
        cleanup(); st = new verif::SpyStack();
#ifdef RJHOGAN_ADEPT_2_VERIF
        verif::EventLog::install(); verif::EventLog::buf().clear();
#endif
        std::cout << "cfg\n";
      } else if ((w[0] == "av" || w[0] == "pv") && w.size() >= 5) {
        std::vector<std::string> a, b;
        if (!split_colon(w, 2, a, b) || get(w[1])) { std::cout << "bad-op\n"; continue; }
        bool col = !a.empty() && a[0] == "col";
        std::vector<Index> d; for (size_t i = col ? 1 : 0; i < a.size(); ++i) d.push_back(atoi(a[i].c_str()));
        std::vector<double> v; for (size_t i = 0; i < b.size(); ++i) v.push_back(atof(b[i].c_str()));
        long h = atol(w[1].c_str()); bool act = w[0] == "av"; bool ok = false;
        if (d.size() == 1) ok = act ? create<1, true>(h, false, d, v) : create<1, false>(h, false, d, v);
        else if (d.size() == 2) ok = act ? create<2, true>(h, col, d, v) : create<2, false>(h, col, d, v);
        else if (d.size() == 3) ok = act ? create<3, true>(h, col, d, v) : create<3, false>(h, col, d, v);
        else if (d.size() == 4) ok = act ? create<4, true>(h, col, d, v) : create<4, false>(h, col, d, v);
        if (ok) std::cout << "ok " << geom(h) << "\n"; else std::cout << "bad-op\n";
      } else if (w[0] == "as" && w.size() == 3 && !get(w[1])) {
        long h = atol(w[1].c_str());
        Obj o; o.kind = K_SCAL; o.rank = 0; o.active = true; o.p = new adouble(atof(w[2].c_str())); o.root = h; o.base = 0; o.n = 1;
        o.gbase = static_cast<adouble*>(o.p)->gradient_index(); pool[h] = o;
        std::cout << "ok " << geom(h) << "\n";
      } else if (w[0] == "iv" && w.size() >= 4 && w[2] == ":" && !get(w[1])) {
        long h = atol(w[1].c_str());
        intVector* v = new intVector((Index)(w.size() - 3));
        for (size_t i = 3; i < w.size(); ++i) (*v)((Index)(i - 3)) = atoi(w[i].c_str());
        Obj o; o.kind = K_IVEC; o.rank = 1; o.active = false; o.p = v; o.root = h; o.base = 0; o.n = 0; o.gbase = -1; pool[h] = o;
        std::cout << "ok " << geom(h) << "\n";
      } else if (w[0] == "f4" && w.size() == 7 && w[2] == ":" && !get(w[1])) {
        long h = atol(w[1].c_str());
        FA4* f = new FA4();
        for (int i = 0; i < 4; ++i) f->data()[i] = atof(w[3 + i].c_str());
        Obj o; o.kind = K_FA4; o.rank = 1; o.active = true; o.p = f; o.root = h; o.base = f->data(); o.n = 4; o.gbase = f->gradient_index(); pool[h] = o;
        std::cout << "ok " << geom(h) << "\n";
      } else if (w[0] == "f23" && w.size() == 9 && w[2] == ":" && !get(w[1])) {
        long h = atol(w[1].c_str());
        FA23* f = new FA23();
        for (int i = 0; i < 2; ++i) for (int j = 0; j < 3; ++j) f->data()[i * f->offset(0) + j * f->offset(1)] = atof(w[3 + i * 3 + j].c_str());
        Obj o; o.kind = K_FA23; o.rank = 2; o.active = true; o.p = f; o.root = h; o.base = f->data(); o.n = 6; o.gbase = f->gradient_index(); pool[h] = o;
        std::cout << "ok " << geom(h) << "\n";
      } else if ((w[0] == "f234" || w[0] == "f2232") && w.size() == 27 && w[2] == ":" && !get(w[1])) {
        long h = atol(w[1].c_str());
        Obj o; o.active = true; o.root = h; o.n = 24;
        if (w[0] == "f234") { FA234* f = new FA234(); fill_fixed<3>(*f, w, 3); o.kind = K_FA234; o.rank = 3; o.p = f; o.base = f->data(); o.gbase = f->gradient_index(); }
        else { FA2232* f = new FA2232(); fill_fixed<4>(*f, w, 3); o.kind = K_FA2232; o.rank = 4; o.p = f; o.base = f->data(); o.gbase = f->gradient_index(); }
        pool[h] = o;
        std::cout << "ok " << geom(h) << "\n";
      } else if (w[0] == "vw" && w.size() >= 4) {
        Obj* src = get(w[2]);
        std::vector<Ix> ix; bool ok = src && src->kind == K_ARR && !get(w[1]);
        for (size_t i = 3; ok && i < w.size(); ++i) { Ix x; ok = parse_ix(w[i], x); ix.push_back(x); }
        long h = atol(w[1].c_str());
        if (ok) ok = src->active ? make_view<true>(h, *src, ix) : make_view<false>(h, *src, ix);
        if (ok) std::cout << "ok " << geom(h) << "\n"; else std::cout << "bad-op\n";
      } else if ((w[0] == "vT" || w[0] == "vperm" || w[0] == "vdiag" || w[0] == "vsoft" || w[0] == "vlink") && w.size() >= 3) {
        Obj* src = get(w[2]);
        if (!src || src->kind != K_ARR || get(w[1])) { std::cout << "bad-op\n"; continue; }
        long h = atol(w[1].c_str());
        bool ok = src->active ? other_view<true>(w, h, *src) : other_view<false>(w, h, *src);
        if (ok) std::cout << "ok " << geom(h) << "\n"; else std::cout << "bad-op\n";
      } else if (w[0] == "nr") { st->new_recording(); std::cout << "ok\n"; }
      else if (w[0] == "geom" && w.size() == 2 && get(w[1])) std::cout << "G " << geom(atol(w[1].c_str())) << "\n";
      else if (w[0] == "pad" && w.size() == 2) {
        // k operations forming the identity statement d[0] = 1*d[0] + 0*d[0] + ...: moves the fill level of the
        // operation buffer without changing any derivative
        long k = atol(w[1].c_str());
        if (k > 0) {
          st->check_space(k);
          for (long i = 0; i < k; ++i) st->push_rhs(i == 0 ? 1.0 : 0.0, 0);
          st->push_lhs(0);
        }
        std::cout << "ok\n";
      } else if (w[0] == "tape") {
        std::cout << "T " << st->n_statements() << " " << st->n_operations() << " | " << tape_from(1) << "\n";
      } else if (w[0] == "ev") {
#ifdef RJHOGAN_ADEPT_2_VERIF
        std::cout << verif::EventLog::take(*st) << "\n";
#else
        std::cout << "E\n";
#endif
      } else if (w[0] == "jac") {
        std::vector<std::string> a, b;
        Words rest(w.begin() + 2, w.end());
        if (w.size() < 2 || w[1] != ":" || !split_colon(rest, 0, a, b)) { std::cout << "bad-op\n"; continue; }
        st->clear_independents(); st->clear_dependents();
        bool ok = true;
        for (int pass = 0; pass < 2 && ok; ++pass) {
          std::vector<std::string>& hs = pass ? b : a;
          for (size_t i = 0; i < hs.size() && ok; ++i) {
            Obj* o = get(hs[i]);
            if (!o || !o->active) { ok = false; break; }
#define AAD_REG(X) { if (pass) st->dependent(X); else st->independent(X); }
            switch (o->kind) {
              case K_ARR: if (o->rank == 1) AAD_REG((as<1, true>(*o))) else if (o->rank == 2) AAD_REG((as<2, true>(*o))) else if (o->rank == 3) AAD_REG((as<3, true>(*o))) else AAD_REG((as<4, true>(*o))) break;
              case K_FA4: AAD_REG(asF4(*o)) break;
              case K_FA23: AAD_REG(asF23(*o)) break;
              case K_FA234: AAD_REG(asF234(*o)) break;
              case K_FA2232: AAD_REG(asF2232(*o)) break;
              case K_SCAL: AAD_REG(asS(*o)) break;
              default: ok = false;
            }
#undef AAD_REG
          }
        }
        if (!ok) { std::cout << "bad-op\n"; continue; }
        Matrix J; J >>= st->jacobian();
        std::cout << "J " << J.dimension(0) << " " << J.dimension(1) << " :";
        for (Index i = 0; i < J.dimension(0); ++i) for (Index j = 0; j < J.dimension(1); ++j) std::cout << " " << num(J(i, j));
        std::cout << "\n";
      } else {
        // a statement
        Ctx c;
        uIndex first = st->n_statements();
        std::string status = "ok";
        int r = 0;
        try {
          r = exec_s10(w, c);           // fx* statements on the rank-3 / rank-4 FixedArrays: before part 4 (rank 1..2)
          if (r == 0) r = exec_s9(w, c);            // rank-4 statements (same op words as the rank 1..3 menu): first
          if (r == 0) r = exec_s1(w, c);
          if (r == 0) r = exec_s2(w, c);
          if (r == 0) r = exec_s3(w, c);
          if (r == 0) r = exec_s4(w, c);
          if (r == 0) r = exec_s5(w, c);
          if (r == 0) r = exec_s6(w, c);
          if (r == 0) r = exec_s7(w, c);
          if (r == 0) r = exec_s8(w, c);
        } catch (const std::exception& e) { status = "EXC " + excname(e); r = 1; }
        if (r != 1 || !c.pre_done) { std::cout << "bad-op\n"; continue; }
        long t = c.newh >= 0 ? c.newh : c.objs[0];
        refresh(t);
        std::cout << "S " << status << c.before << " | T " << tape_from(first) << " | A " << geom(t) << " | N " << mem_image(pool[t].root) << "\n";
      }
    } catch (const std::exception& e) {
      std::cout << "EXC " << excname(e) << "\n";
    }
  }
  cleanup();
  return 0;
}
