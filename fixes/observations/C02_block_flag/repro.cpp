// Reverse-mode Jacobian: an infinite partial derivative in ONE row turns finite entries of the OTHER rows of the same
// block of ADEPT_MULTIPASS_SIZE rows into NaN.  jacobian_forward and Stack::reverse() give the finite value.
//   g++ -std=c++11 -O1 -fopenmp -I/repo/include -I/repo/adept repro.cpp /repo/adept/*.cpp -o repro && ./repro
#include <adept.h>
#include <cstdio>
#include <cmath>
using namespace adept;
int main() {
  Stack stack;
  stack.set_max_jacobian_threads(1);
  adouble x = 0.0;
  stack.new_recording();
  adouble y1 = 1.0 * x + 0.0;   // dy1/dx = 1
  adouble y2 = sqrt(x);         // dy2/dx = 0.5/sqrt(0) = Inf   (x = 0)
  stack.independent(x);
  stack.dependent(y1);
  stack.dependent(y2);
  double jf[2], jr[2];
  stack.jacobian_forward(jf);
  stack.jacobian_reverse(jr);
  stack.clear_gradients();
  y1.set_gradient(1.0);
  stack.reverse();
  double adj = x.get_gradient();
  std::printf("dy1/dx: jacobian_forward = %g, jacobian_reverse = %g, reverse() seeded with y1 = %g\n", jf[0], jr[0], adj);
  std::printf("dy2/dx: jacobian_forward = %g, jacobian_reverse = %g\n", jf[1], jr[1]);
  bool bad = std::isnan(jr[0]) && jf[0] == 1.0 && adj == 1.0;
  std::printf(bad ? "DIFFERENT: the reverse Jacobian returns NaN for dy1/dx\n" : "same\n");
  return bad ? 1 : 0;
}
