// Array<7,T> cannot be instantiated at all although "Up to 7 dimensions are supported" (Array.h, documentation).
// build: g++ -std=c++11 -I/repo/include -I/repo/adept -fsyntax-only repro.cpp      (fails to compile on the unchanged /repo)
#include <adept_arrays.h>
using namespace adept;
int main() {
  Array<7,int> a(ExpressionSize<7>(2,2,2,2,2,2,2));
  a = 1;
  return a(1,1,1,1,1,1,1) == 1 ? 0 : 1;
}
