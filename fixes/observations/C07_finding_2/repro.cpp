// finding_2 (C07, compile-time): value() / inactive_link() of an ACTIVE SpecialMatrix does not compile.
// SpecialMatrix<Type,Engine,true>::inactive_link() default-constructs a SpecialMatrix<Type,Engine,false> and writes its
// data_, storage_, dimension_, offset_ directly: these are protected members of a DIFFERENT class (another
// specialization), so the function is ill-formed as soon as it is instantiated for IsActive == true.
// check: g++ -std=c++11 -fsyntax-only -I/repo/include -I/repo/adept repro.cpp      (pinned tree: errors; with fix.patch: compiles)
// run:   g++ -std=c++11 -O1 -fopenmp -I/repo/include -I/repo/adept repro.cpp /repo/adept/*.cpp -o repro && ./repro  -> PASS
#include <adept_arrays.h>
#include <cstdio>
int main() {
  adept::Stack stack;
  int bad = 0;
  {
    adept::aSymmMatrix A(3);
    A = 1.0;
    adept::SymmMatrix P = adept::value(A);          // a passive matrix on the SAME data: exactly one more link
    if (P.data() != A.data() || A.storage()->n_links() != 2) { std::puts("value(A) does not share / miscounts"); bad = 1; }
  }
  if (adept::n_storage_objects() != 0) { std::puts("leak"); bad = 1; }
  std::puts(bad ? "FAIL" : "PASS");
  return bad;
}
