// Unary operations on an index expression do not compile in index position: v(-end + 9), v(-(end-9)), v(-idx + 5), v(abs(idx)).
// build: g++ -std=c++11 -I/repo/include -I/repo/adept -fsyntax-only repro.cpp      (fails to compile on the unchanged /repo)
#include <adept_arrays.h>
using namespace adept;
int main() {
  intVector v(10), idx(3), r;
  for (int i = 0; i < 10; ++i) v(i) = i;
  idx(0) = 1; idx(1) = 3; idx(2) = 0;
  int bad = 0;
  if (v(-end + 10) != 1) ++bad;          // -9 + 10
  if (v(-(end - 9)) != 0) ++bad;
  r = v(-idx + 5);                       // 4, 2, 5
  if (r(0) != 4 || r(1) != 2 || r(2) != 5) ++bad;
  return bad;
}
