// F-52 (C05): FixedArray::all_arrays_contiguous_() returns true although rows of a FixedArray are not padded.
// g++ -std=c++11 -O1 -msse2 ... (as F-51).  pinned tree: Segmentation fault (row 1 of F starts at an odd element)
#include <adept_arrays.h>
#include <cstdio>
using namespace adept;
int main() {
  alignas(64) static FixedArray<double,false,3,5> F;   // rows of 5 doubles, packet size 2
  for (int i = 0; i < 3; ++i) for (int j = 0; j < 5; ++j) F(i,j) = 10*i + j;
  Matrix M(3,5);                                       // rows padded to 6
  M = F + 1.0;                                         // faults; so does  double s = sum(F);
  std::printf("ok %g\n", M(2,4));
  return 0;
}
