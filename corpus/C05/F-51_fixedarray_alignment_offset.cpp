// F-51 (C05): FixedArray::alignment_offset_<n>() returns the distance FROM the previous packet boundary,
// Array::alignment_offset_<n>() (and every user of the value) means the distance TO the next one.
// g++ -std=c++11 -O1 -msse2 -I/repo/include this.cpp /repo/adept/{Array,Stack,StackStorageOrig,Storage,jacobian,settings,index}.cpp -fopenmp
// pinned tree: Segmentation fault (aligned load _mm_load_ps at f.data()+1, which is 2 floats past a 16-byte boundary)
#include <adept_arrays.h>
#include <cstdio>
#include <new>
using namespace adept;
int main() {
  typedef FixedArray<float,false,8> FA;
  alignas(64) static char buf[sizeof(FA) + 64];
  FA* f = new (buf + 1 * sizeof(float)) FA();          // data 1 element past a boundary: claims offset 1, true offset 3
  for (int i = 0; i < 8; ++i) (*f)(i) = float(i);
  Array<1,float> big(16), a(8);
  a = 1.0f;
  Array<1,float> t; t >>= big(range(3, 10));           // 3 elements past a boundary: offset 1
  t = *f + 1.0f;                                       // offsets "agree" (1 == 1): packet loop from istartvec = 1
  std::printf("ok %g\n", double(t(7)));
  return 0;
}
