// F-53 (C05): Array::columns_aligned_() tests offset_[Rank-2] only; for rank >= 3 another outer offset can be odd.
// g++ -std=c++11 -O1 -msse2 ... (as F-51).  pinned tree: Segmentation fault (row (1,0) of C starts at element 5)
#include <adept_arrays.h>
#include <cstdio>
using namespace adept;
int main() {
  Array<3> B; B.resize_contiguous(3,2,5);              // offsets 10,5,1
  B = 1.0;
  Array<3> C; C >>= B.permute(1,0,2);                  // extents 2,3,5  offsets 5,10,1: offset_[Rank-2] = 10 passes the test
  Array<3> D(2,3,5);
  D = C + 1.0;                                         // faults; so does  double s = sum(C);
  std::printf("ok %g\n", D(1,2,4));
  return 0;
}
